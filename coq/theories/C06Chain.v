(* C06 - hand-written theorems that do not depend on generated files.

   The generated obligations (coq/gen/obl/C06_*.v) have, for every traced kernel, the form
       forall x dx, dom x -> is_derive (fun h => f_val (x + h*dx)) 0 (f_der x dx)
   ("line obligation": the carried derivative is the derivative along every line through the
   point).  This file proves, for ALL expression trees over kernels meeting that obligation:
     - C06_chain            the carried derivative of a tree is the derivative of the composite
     - C06_linear           the carried derivative is linear in the operand derivatives
     - C06_missing_key      operands without the key (derivative 0) behave as constants; a tree
                            none of whose leaves carries the key has carried derivative 0
     - product / quotient / sum reference rules (the formulas _add/_sub/_mul/_div_derivs implement)
     - C06_keys / C06_strip  which derivative keys a result carries: the union of the operand
                            keys when recursive, none with recursive=False / wod / without_derivs
     - inverse_derivative_unique  d(M.N) = 0 and N.M = I determine dN = -N.dM.N (any size n)
   All U (unbounded: induction over trees / any n). *)
From Coq Require Import Reals Lra List Arith Lia Bool.
From Coquelicot Require Import Coquelicot.
Import ListNotations.
Local Open Scope R_scope.

(* ------------------------------------------------------------------------- *)
(* the line obligation and what it gives                                      *)
(* ------------------------------------------------------------------------- *)
Definition line_ok1 (f : R -> R) (f' : R -> R -> R) (x : R) : Prop :=
  forall dx, is_derive (fun h => f (x + h * dx)) 0 (f' x dx).

Definition line_ok2 (f : R -> R -> R) (f' : R -> R -> R -> R -> R) (x y : R) : Prop :=
  forall dx dy, is_derive (fun h => f (x + h * dx) (y + h * dy)) 0 (f' x dx y dy).

(* a binary kernel is smooth at a point when it has a (Frechet) differential there; for one
   variable the line obligation with dx = 1 already says so *)
Definition smooth2 (f : R -> R -> R) (x y : R) : Prop :=
  exists lx ly, differentiable_pt_lim f x y lx ly.

Lemma is_derive_unique2 : forall (f : R -> R) x (l1 l2 : R), is_derive f x l1 -> is_derive f x l2 -> l1 = l2.
Proof.
  intros f x l1 l2 H1 H2. rewrite <- (is_derive_unique f x l1 H1). apply is_derive_unique. exact H2.
Qed.

Lemma line1_point : forall f f' x, line_ok1 f f' x -> is_derive f x (f' x 1).
Proof.
  intros f f' x H. specialize (H 1).
  apply (is_derive_ext (fun t => (fun h => f (x + h * 1)) (t - x))).
  - intros t. simpl. f_equal. ring.
  - replace (f' x 1) with (scal (1 - 0) (f' x 1)) by (unfold scal; simpl; unfold mult; simpl; ring).
    apply (is_derive_comp (fun h => f (x + h * 1)) (fun t => t - x) x (f' x 1) (1 - 0)).
    + cbv beta. unfold Rminus. rewrite Rplus_opp_r. exact H.
    + auto_derive; [exact I | ring].
Qed.

Lemma line_along : forall (f : R -> R) x l dx, is_derive f x l -> is_derive (fun h => f (x + h * dx)) 0 (dx * l).
Proof.
  intros f x l dx H.
  replace (dx * l) with (scal (0 + 1 * dx) l) by (unfold scal; simpl; unfold mult; simpl; ring).
  apply (is_derive_comp f (fun h => x + h * dx) 0 l (0 + 1 * dx)).
  - cbv beta. rewrite Rmult_0_l, Rplus_0_r. exact H.
  - auto_derive; [exact I | ring].
Qed.

(* linearity in dx of a carried derivative that meets the line obligation (one operand) *)
Lemma line1_linear : forall f f' x dx, line_ok1 f f' x -> f' x dx = dx * f' x 1.
Proof.
  intros f f' x dx H. pose proof (line1_point f f' x H) as P.
  apply (is_derive_unique2 (fun h => f (x + h * dx)) 0); [apply H | apply line_along; exact P].
Qed.

Lemma line2_along : forall f x y lx ly dx dy, differentiable_pt_lim f x y lx ly ->
  is_derive (fun h => f (x + h * dx) (y + h * dy)) 0 (lx * dx + ly * dy).
Proof.
  intros f x y lx ly dx dy D. apply is_derive_Reals.
  apply (derivable_pt_lim_comp_2d f (fun h => x + h * dx) (fun h => y + h * dy) 0 lx ly dx dy).
  - cbv beta. rewrite !Rmult_0_l, !Rplus_0_r. exact D.
  - apply is_derive_Reals. replace dx with (0 + 1 * dx) at 2 by ring. auto_derive; [exact I | ring].
  - apply is_derive_Reals. replace dy with (0 + 1 * dy) at 2 by ring. auto_derive; [exact I | ring].
Qed.

(* two operands: at a smooth point the line obligation pins the differential down *)
Lemma line2_linear : forall f f' x y, line_ok2 f f' x y -> smooth2 f x y ->
  differentiable_pt_lim f x y (f' x 1 y 0) (f' x 0 y 1) /\
  forall dx dy, f' x dx y dy = dx * f' x 1 y 0 + dy * f' x 0 y 1.
Proof.
  intros f f' x y H [lx [ly D]].
  assert (E : forall dx dy, f' x dx y dy = lx * dx + ly * dy).
  { intros dx dy. apply (is_derive_unique2 (fun h => f (x + h * dx) (y + h * dy)) 0); [apply H|].
    apply line2_along. exact D. }
  split.
  - rewrite (E 1 0), (E 0 1). replace (lx * 1 + ly * 0) with lx by ring.
    replace (lx * 0 + ly * 1) with ly by ring. exact D.
  - intros dx dy. rewrite (E dx dy), (E 1 0), (E 0 1). ring.
Qed.

(* ------------------------------------------------------------------------- *)
(* expression trees over kernels                                               *)
(* ------------------------------------------------------------------------- *)
Inductive expr : Type :=
  | Var : nat -> expr
  | Cst : R -> expr
  | Un : (R -> R) -> (R -> R -> R) -> expr -> expr
  | Bin : (R -> R -> R) -> (R -> R -> R -> R -> R) -> expr -> expr -> expr.

Fixpoint eval (env : nat -> R) (e : expr) : R :=
  match e with
  | Var i => env i
  | Cst c => c
  | Un f _ a => f (eval env a)
  | Bin f _ a b => f (eval env a) (eval env b)
  end.

(* the derivative polymath carries along: every node applies its kernel's derivative formula to
   the values and carried derivatives of its operands *)
Fixpoint carried (env denv : nat -> R) (e : expr) : R :=
  match e with
  | Var i => denv i
  | Cst _ => 0
  | Un _ f' a => f' (eval env a) (carried env denv a)
  | Bin _ f' a b => f' (eval env a) (carried env denv a) (eval env b) (carried env denv b)
  end.

(* every node's kernel meets its obligation at the point where it is used, and that point is smooth *)
Fixpoint nodes_ok (env : nat -> R) (e : expr) : Prop :=
  match e with
  | Var _ | Cst _ => True
  | Un f f' a => line_ok1 f f' (eval env a) /\ nodes_ok env a
  | Bin f f' a b => line_ok2 f f' (eval env a) (eval env b) /\ smooth2 f (eval env a) (eval env b) /\
                    nodes_ok env a /\ nodes_ok env b
  end.

Lemma eval_ext : forall e env1 env2, (forall i, env1 i = env2 i) -> eval env1 e = eval env2 e.
Proof.
  induction e as [i|c|f f' a IHa|f f' a IHa b IHb]; intros env1 env2 H; simpl.
  - apply H.
  - reflexivity.
  - rewrite (IHa env1 env2 H). reflexivity.
  - rewrite (IHa env1 env2 H), (IHb env1 env2 H). reflexivity.
Qed.

Lemma eval_at_0 : forall e env denv, eval (fun i => env i + 0 * denv i) e = eval env e.
Proof. intros. apply eval_ext. intros. ring. Qed.

(* U: the chain rule through any tree *)
Theorem chain : forall e env denv, nodes_ok env e ->
  is_derive (fun h => eval (fun i => env i + h * denv i) e) 0 (carried env denv e).
Proof.
  induction e as [i|c|f f' a IHa|f f' a IHa b IHb]; intros env denv Hok; simpl in *.
  - replace (denv i) with (0 + 1 * denv i) at 2 by ring. auto_derive; [exact I | ring].
  - apply @is_derive_const.
  - destruct Hok as [Hk Ha].
    pose proof (line1_point f f' _ Hk) as P.
    pose proof (IHa env denv Ha) as G.
    rewrite (line1_linear f f' _ (carried env denv a) Hk).
    replace (carried env denv a * f' (eval env a) 1) with (scal (carried env denv a) (f' (eval env a) 1))
      by (unfold scal; simpl; unfold mult; simpl; ring).
    apply (is_derive_comp f (fun h => eval (fun i => env i + h * denv i) a) 0).
    + cbv beta. rewrite eval_at_0. exact P.
    + exact G.
  - destruct Hok as [Hk [Hs [Ha Hb]]].
    destruct (line2_linear f f' _ _ Hk Hs) as [D L].
    pose proof (IHa env denv Ha) as GA. pose proof (IHb env denv Hb) as GB.
    rewrite L. apply is_derive_Reals.
    replace (carried env denv a * f' (eval env a) 1 (eval env b) 0 +
             carried env denv b * f' (eval env a) 0 (eval env b) 1)
      with (f' (eval env a) 1 (eval env b) 0 * carried env denv a +
            f' (eval env a) 0 (eval env b) 1 * carried env denv b) by ring.
    apply (derivable_pt_lim_comp_2d f (fun h => eval (fun i => env i + h * denv i) a)
             (fun h => eval (fun i => env i + h * denv i) b) 0).
    + cbv beta. rewrite !eval_at_0. exact D.
    + apply is_derive_Reals. exact GA.
    + apply is_derive_Reals. exact GB.
Qed.

(* U: the carried derivative of a tree is linear in the derivatives of the inputs *)
Theorem carried_linear : forall e env d1 d2 k1 k2, nodes_ok env e ->
  carried env (fun i => k1 * d1 i + k2 * d2 i) e = k1 * carried env d1 e + k2 * carried env d2 e.
Proof.
  induction e as [i|c|f f' a IHa|f f' a IHa b IHb]; intros env d1 d2 k1 k2 Hok; simpl in *.
  - reflexivity.
  - ring.
  - destruct Hok as [Hk Ha]. rewrite (IHa env d1 d2 k1 k2 Ha).
    rewrite (line1_linear f f' _ _ Hk), (line1_linear f f' _ (carried env d1 a) Hk),
      (line1_linear f f' _ (carried env d2 a) Hk). ring.
  - destruct Hok as [Hk [Hs [Ha Hb]]]. destruct (line2_linear f f' _ _ Hk Hs) as [_ L].
    rewrite (IHa env d1 d2 k1 k2 Ha), (IHb env d1 d2 k1 k2 Hb).
    rewrite L, (L (carried env d1 a)), (L (carried env d2 a)). ring.
Qed.

(* U: inputs that lack the key have derivative 0; if no input carries the key the carried
   derivative of the whole tree is 0 (the result is a constant of that key) *)
Theorem carried_missing_key : forall e env denv, nodes_ok env e ->
  (forall i, denv i = 0) -> carried env denv e = 0.
Proof.
  induction e as [i|c|f f' a IHa|f f' a IHa b IHb]; intros env denv Hok Hz; simpl in *.
  - apply Hz.
  - reflexivity.
  - destruct Hok as [Hk Ha]. rewrite (IHa env denv Ha Hz).
    rewrite (line1_linear f f' _ 0 Hk). ring.
  - destruct Hok as [Hk [Hs [Ha Hb]]]. destruct (line2_linear f f' _ _ Hk Hs) as [_ L].
    rewrite (IHa env denv Ha Hz), (IHb env denv Hb Hz), L. ring.
Qed.

(* U: a binary node one of whose operands lacks the key: the carried derivative is the
   two-sided formula with that operand's derivative set to 0, i.e. the partial derivative *)
Theorem carried_one_sided : forall f f' a b env denv,
  nodes_ok env (Bin f f' a b) -> carried env denv b = 0 ->
  carried env denv (Bin f f' a b) = carried env denv a * f' (eval env a) 1 (eval env b) 0.
Proof.
  intros f f' a b env denv Hok Hz. simpl in *. destruct Hok as [Hk [Hs _]].
  destruct (line2_linear f f' _ _ Hk Hs) as [_ L]. rewrite Hz, L. ring.
Qed.

(* ------------------------------------------------------------------------- *)
(* reference rules (what _add/_sub/_mul/_div_derivs and the function factors implement)   *)
(* ------------------------------------------------------------------------- *)
Lemma ref_sum_rule : forall x y, line_ok2 Rplus (fun _ dx _ dy => dx + dy) x y.
Proof. intros x y dx dy. auto_derive; [exact I | ring]. Qed.

Lemma ref_difference_rule : forall x y, line_ok2 Rminus (fun _ dx _ dy => dx - dy) x y.
Proof. intros x y dx dy. auto_derive; [exact I | ring]. Qed.

Lemma ref_product_rule : forall x y, line_ok2 Rmult (fun x dx y dy => dx * y + x * dy) x y.
Proof. intros x y dx dy. auto_derive; [exact I | ring]. Qed.

Lemma ref_quotient_rule : forall x y, y <> 0 ->
  line_ok2 Rdiv (fun x dx y dy => dx * / y - x * (dy * / y * / y)) x y.
Proof.
  intros x y Hy dx dy. auto_derive.
  - rewrite Rmult_0_l, Rplus_0_r. exact Hy.
  - rewrite !Rmult_0_l, !Rplus_0_r. field. exact Hy.
Qed.

Lemma ref_chain_factor : forall (f : R -> R) (df : R -> R) x,
  is_derive f x (df x) -> line_ok1 f (fun x dx => df x * dx) x.
Proof.
  intros f df x H dx. replace (df x * dx) with (dx * df x) by ring. apply line_along. exact H.
Qed.

Lemma smooth2_plus : forall x y, smooth2 Rplus x y.
Proof.
  intros x y. exists 1, 1. intros eps. exists eps. intros u v _ _.
  replace (u + v - (x + y) - (1 * (u - x) + 1 * (v - y))) with 0 by ring.
  rewrite Rabs_R0. apply Rmult_le_pos; [apply Rlt_le, cond_pos|].
  apply Rle_trans with (Rabs (u - x)); [apply Rabs_pos | apply Rmax_l].
Qed.

Lemma smooth2_mult : forall x y, smooth2 Rmult x y.
Proof.
  intros x y. exists y, x. apply filterdiff_differentiable_pt_lim.
  eapply filterdiff_ext_lin.
  - apply (filterdiff_mult (K := R_AbsRing) (x, y)).
    + intros P HP. exact HP.
    + exact Rmult_comm.
  - intros [u v]. simpl. unfold plus, mult. simpl. ring.
Qed.

(* ------------------------------------------------------------------------- *)
(* which keys a result carries                                                 *)
(* ------------------------------------------------------------------------- *)
(* structural model: a tree of operations; every leaf operand has a set of derivative keys
   (list of key ids); each operation is applied with recursive = true / false; wod /
   without_derivs is an operation with recursive = false on one operand *)
Inductive ktree : Type :=
  | KLeaf : list nat -> ktree
  | KOp : bool -> list ktree -> ktree.        (* recursive flag, operands *)

Fixpoint keys (t : ktree) : list nat :=
  match t with
  | KLeaf ks => ks
  | KOp rec ts => if rec then flat_map keys ts else []
  end.

Definition wod (t : ktree) : ktree := KOp false [t].

(* the keys at the leaves, ignoring flags *)
Fixpoint leaf_keys (t : ktree) : list nat :=
  match t with
  | KLeaf ks => ks
  | KOp _ ts => flat_map leaf_keys ts
  end.

Fixpoint all_recursive (t : ktree) : bool :=
  match t with
  | KLeaf _ => true
  | KOp rec ts => rec && forallb all_recursive ts
  end.

Lemma ktree_ind' : forall P : ktree -> Prop,
  (forall ks, P (KLeaf ks)) ->
  (forall r ts, List.Forall P ts -> P (KOp r ts)) -> forall t, P t.
Proof.
  intros P HL HO. fix IH 1. intros [ks|r ts]; [apply HL|]. apply HO.
  induction ts as [|t ts IHts]; constructor; [apply IH | exact IHts].
Qed.

(* U: with recursive=False (or wod / without_derivs) the result carries no derivative *)
Theorem strip_no_keys : forall ts, keys (KOp false ts) = [].
Proof. reflexivity. Qed.

Theorem wod_no_keys : forall t, keys (wod t) = [].
Proof. reflexivity. Qed.

(* U: a key of the result is a key of some operand, whatever the flags *)
Theorem keys_sound : forall t k, In k (keys t) -> In k (leaf_keys t).
Proof.
  induction t as [ks|r ts IH] using ktree_ind'; intros k Hk; simpl in *; [exact Hk|].
  destruct r; [|contradiction].
  apply in_flat_map in Hk. destruct Hk as [t [Ht Hk]].
  apply in_flat_map. exists t. split; [exact Ht|].
  rewrite Forall_forall in IH. exact (IH t Ht k Hk).
Qed.

(* U: when every operation is recursive the result has exactly the union of the operand keys *)
Theorem keys_complete : forall t, all_recursive t = true -> keys t = leaf_keys t.
Proof.
  induction t as [ks|r ts IH] using ktree_ind'; intros Hr; simpl in *; [reflexivity|].
  apply andb_true_iff in Hr. destruct Hr as [Hr Hts]. subst r.
  rewrite Forall_forall in IH. rewrite forallb_forall in Hts.
  induction ts as [|t ts IHts]; simpl; [reflexivity|].
  rewrite (IH t (or_introl eq_refl) (Hts t (or_introl eq_refl))).
  f_equal. apply IHts.
  - intros x Hx. apply IH. right. exact Hx.
  - intros x Hx. apply Hts. right. exact Hx.
Qed.

(* U: one binary operation: result keys = union (as a set) of the operand keys *)
Theorem keys_union : forall a b k,
  In k (keys (KOp true [a; b])) <-> In k (keys a) \/ In k (keys b).
Proof.
  intros a b k. simpl. rewrite app_nil_r. apply in_app_iff.
Qed.

(* ------------------------------------------------------------------------- *)
(* Matrix.inverse: the derivative is determined by the hypothesis M.N = I      *)
(* ------------------------------------------------------------------------- *)
Section Inverse.
  Fixpoint sumn (n : nat) (f : nat -> R) : R :=
    match n with O => 0 | S m => sumn m f + f m end.
  Definition mmul (n : nat) (A B : nat -> nat -> R) : nat -> nat -> R :=
    fun i j => sumn n (fun k => A i k * B k j).
  Definition kron (i j : nat) : R := if Nat.eqb i j then 1 else 0.

  Lemma sumn_ext : forall n f g, (forall i, (i < n)%nat -> f i = g i) -> sumn n f = sumn n g.
  Proof.
    induction n as [|n IH]; intros f g H; simpl; [reflexivity|].
    rewrite (IH f g) by (intros i Hi; apply H; lia). rewrite H by lia. reflexivity.
  Qed.
  Lemma sumn_plus : forall n f g, sumn n (fun i => f i + g i) = sumn n f + sumn n g.
  Proof. induction n as [|n IH]; intros; simpl; [ring|]. rewrite IH. ring. Qed.
  Lemma sumn_scal : forall n c f, sumn n (fun i => c * f i) = c * sumn n f.
  Proof. induction n as [|n IH]; intros; simpl; [ring|]. rewrite IH. ring. Qed.
  Lemma sumn_scal_r : forall n c f, sumn n (fun i => f i * c) = sumn n f * c.
  Proof. induction n as [|n IH]; intros; simpl; [ring|]. rewrite IH. ring. Qed.
  Lemma sumn_zero : forall n, sumn n (fun _ => 0) = 0.
  Proof. induction n as [|n IH]; simpl; [reflexivity|]. rewrite IH. ring. Qed.
  Lemma sumn_swap : forall n m (f : nat -> nat -> R),
    sumn n (fun i => sumn m (fun j => f i j)) = sumn m (fun j => sumn n (fun i => f i j)).
  Proof.
    induction n as [|n IH]; intros m f; simpl.
    - rewrite sumn_zero. reflexivity.
    - rewrite IH, <- sumn_plus. reflexivity.
  Qed.
  Lemma sumn_kron : forall n j f, (j < n)%nat -> sumn n (fun i => kron i j * f i) = f j.
  Proof.
    induction n as [|n IH]; intros j f Hj; [lia|]. simpl.
    destruct (Nat.eq_dec j n) as [E|E].
    - subst j. rewrite (sumn_ext n _ (fun _ => 0)).
      + rewrite sumn_zero. unfold kron. rewrite Nat.eqb_refl. ring.
      + intros i Hi. unfold kron. destruct (Nat.eqb_spec i n) as [E2|E2]; [lia|ring].
    - rewrite IH by lia. unfold kron. destruct (Nat.eqb_spec n j) as [E2|E2]; [lia|ring].
  Qed.

  Lemma mmul_assoc : forall n A B C i j,
    mmul n (mmul n A B) C i j = mmul n A (mmul n B C) i j.
  Proof.
    intros. unfold mmul.
    rewrite (sumn_ext n _ (fun l => sumn n (fun p => A i p * B p l * C l j))).
    2:{ intros l _. rewrite <- (sumn_scal_r n (C l j) (fun p => A i p * B p l)). reflexivity. }
    rewrite sumn_swap. apply sumn_ext. intros p _.
    rewrite <- sumn_scal. apply sumn_ext. intros l _. ring.
  Qed.

  Variable n : nat.
  Variables M N dM dN : nat -> nat -> R.
  (* N is a left inverse of M (LAPACK's result is a two-sided inverse) *)
  Hypothesis left_inverse : forall i j, (i < n)%nat -> (j < n)%nat -> mmul n N M i j = kron i j.
  (* the hypothesis M.N = I differentiated entrywise: dM.N + M.dN = 0 *)
  Hypothesis d_hypothesis : forall i j, (i < n)%nat -> (j < n)%nat ->
    mmul n dM N i j + mmul n M dN i j = 0.

  (* U (any n): the derivative of the inverse is -N.dM.N, the formula Matrix.inverse carries *)
  Theorem inverse_derivative_unique_in_section : forall i j, (i < n)%nat -> (j < n)%nat ->
    dN i j = - mmul n N (mmul n dM N) i j.
  Proof.
    intros i j Hi Hj.
    assert (E1 : mmul n N (mmul n M dN) i j = dN i j).
    { rewrite <- mmul_assoc. unfold mmul at 1.
      rewrite (sumn_ext n _ (fun k => kron k i * dN k j)).
      - exact (sumn_kron n i (fun k => dN k j) Hi).
      - intros k Hk. rewrite (left_inverse i k Hi Hk). unfold kron. rewrite Nat.eqb_sym. reflexivity. }
    assert (E2 : mmul n N (mmul n M dN) i j = - mmul n N (mmul n dM N) i j).
    { unfold mmul at 1 3. rewrite <- Ropp_mult_distr_l_reverse || idtac.
      replace (- sumn n (fun k => N i k * mmul n dM N k j))
        with (sumn n (fun k => -1 * (N i k * mmul n dM N k j))) by (rewrite sumn_scal; ring).
      apply sumn_ext. intros k Hk. pose proof (d_hypothesis k j Hk Hj) as D. nra. }
    rewrite <- E1. exact E2.
  Qed.
End Inverse.
