(* C15 model: reshaping and item restructuring as index relabelings
   (extensions/shaper.py, extensions/item_ops.py, qube.py broadcast_to / from_scalars,
   vector.py to_scalar(s) / as_row / as_column / as_diagonal, pair.py swapxy).
   Every operation is (precondition -> error | output shape + source-index map); the
   object-level result applies ONE map to values, mask and every derivative.
   Proof-free: the model must still run when a proof breaks. *)
From Coq Require Import List Arith ZArith Bool.
From PM Require Import Base Mask.
Import ListNotations.

(* ------------------------------------------------------------------ *)
(* index helpers                                                       *)
(* ------------------------------------------------------------------ *)
(* out[k] = i[p[k]] *)
Definition gather (p i : list nat) : list nat := map (fun k => nth k i 0) p.
Fixpoint pos (m : nat) (p : list nat) : nat :=
  match p with [] => 0 | x :: t => if Nat.eqb x m then 0 else S (pos m t) end.
(* inverse permutation *)
Definition inv (p : list nat) : list nat := map (fun m => pos m p) (seq 0 (length p)).
Fixpoint unravel (s : shape) (k : nat) : mi :=
  match s with [] => [] | n :: t => (k / size t) :: unravel t (k mod size t) end.

Fixpoint remove_nat (x : nat) (l : list nat) : list nat :=
  match l with [] => [] | y :: t => if Nat.eqb y x then t else y :: remove_nat x t end.
(* Python list.insert *)
Fixpoint insert_at (k x : nat) (l : list nat) : list nat :=
  match k, l with
  | 0, _ => x :: l
  | S k', y :: t => y :: insert_at k' x t
  | S _, [] => [x]
  end.
Fixpoint remove_at (k : nat) (l : list nat) : list nat :=
  match k, l with
  | _, [] => []
  | 0, _ :: t => t
  | S k', y :: t => y :: remove_at k' t
  end.
Fixpoint set_at (k x : nat) (l : list nat) : list nat :=
  match k, l with
  | _, [] => []
  | 0, _ :: t => x :: t
  | S k', y :: t => y :: set_at k' x t
  end.
Fixpoint nodupb (l : list nat) : bool :=
  match l with [] => true | x :: t => negb (existsb (Nat.eqb x) t) && nodupb t end.

(* an index relabeling: output shape and, per output index, the source index *)
Record imap := mkim { im_out : shape; im_src : mi -> mi }.
Definition im_id (s : shape) : imap := mkim s (fun i => i).

(* ------------------------------------------------------------------ *)
(* NumPy functions as index maps (None = NumPy raises)                 *)
(* ------------------------------------------------------------------ *)
(* np.transpose(a, p): out.shape[k] = a.shape[p[k]], out[i] = a[j] with j[p[k]] = i[k] *)
Definition np_transpose (p : list nat) (s : shape) : imap :=
  mkim (gather p s) (gather (inv p)).

(* numpy normalize_axis_index *)
Definition norm_axis (n : nat) (a : Z) : option nat :=
  if (Z.leb (- Z.of_nat n) a) && (Z.ltb a (Z.of_nat n))
  then Some (Z.to_nat (if Z.ltb a 0 then a + Z.of_nat n else a)) else None.
Fixpoint norm_axes (n : nat) (l : list Z) : option (list nat) :=
  match l with
  | [] => Some []
  | a :: t => match norm_axis n a, norm_axes n t with
              | Some k, Some r => Some (k :: r)
              | _, _ => None
              end
  end.

Definition swapP (a b n : nat) : list nat :=
  map (fun k => if Nat.eqb k a then b else if Nat.eqb k b then a else k) (seq 0 n).
Definition np_swapaxes (a b : Z) (s : shape) : option imap :=
  match norm_axis (length s) a, norm_axis (length s) b with
  | Some a', Some b' => Some (np_transpose (swapP a' b' (length s)) s)
  | _, _ => None
  end.

(* np.rollaxis: axes = list(range(n)); axes.remove(axis); axes.insert(start, axis) *)
Definition rollP (axis start n : nat) : list nat :=
  insert_at start axis (remove_nat axis (seq 0 n)).
Definition roll_start (n ax : nat) (start : Z) : option nat :=
  let st := if Z.ltb start 0 then (start + Z.of_nat n)%Z else start in
  if (Z.leb 0 st) && (Z.leb st (Z.of_nat n))
  then let st' := Z.to_nat st in Some (if Nat.ltb ax st' then st' - 1 else st')
  else None.
Definition np_rollaxis (axis start : Z) (s : shape) : option imap :=
  let n := length s in
  match norm_axis n axis with
  | None => None
  | Some ax => match roll_start n ax start with
               | None => None
               | Some st => Some (np_transpose (rollP ax st n) s)
               end
  end.

(* np.moveaxis: order = [k not in source]; for dest, src in sorted(zip(destination, source)):
   order.insert(dest, src) *)
Fixpoint insert_sorted (p : nat * nat) (l : list (nat * nat)) : list (nat * nat) :=
  match l with
  | [] => [p]
  | q :: t => if Nat.leb (fst p) (fst q) then p :: l else q :: insert_sorted p t
  end.
Definition sort_pairs (l : list (nat * nat)) : list (nat * nat) := fold_right insert_sorted [] l.
Definition moveP (src dst : list nat) (n : nat) : list nat :=
  fold_left (fun ord p => insert_at (fst p) (snd p) ord) (sort_pairs (combine dst src))
            (filter (fun k => negb (existsb (Nat.eqb k) src)) (seq 0 n)).
Definition np_moveaxis (src dst : list Z) (s : shape) : option imap :=
  let n := length s in
  match norm_axes n src, norm_axes n dst with
  | Some s', Some d' =>
      if nodupb s' && nodupb d' && Nat.eqb (length s') (length d')
      then Some (np_transpose (moveP s' d' n) s) else None
  | _, _ => None
  end.

(* np.reshape: at most one negative (unknown) entry, sizes agree *)
Definition resolve_shape (sz : nat) (t : list Z) : option shape :=
  let unknown := fun x => Z.ltb x 0 in      (* NumPy 2: any negative entry is "the unknown one" *)
  let known := fold_right (fun x acc => if unknown x then acc else Z.to_nat x * acc) 1 t in
  match length (filter unknown t) with
  | 0 => if Nat.eqb known sz then Some (map Z.to_nat t) else None
  | 1 => if Nat.eqb known 0 then None
         else if Nat.eqb (sz mod known) 0
              then Some (map (fun x => if unknown x then sz / known else Z.to_nat x) t)
              else None
  | _ => None
  end.
Definition reshape_map (s o : shape) : imap := mkim o (fun i => unravel s (ravel o i)).
Definition np_reshape (t : list Z) (s : shape) : option imap :=
  match resolve_shape (size s) t with
  | Some o => Some (reshape_map s o)
  | None => None
  end.

(* np.broadcast_to *)
Fixpoint bc_ok_rev (s t : list nat) : bool :=
  match s, t with
  | [], _ => true
  | _ :: _, [] => false
  | x :: s', y :: t' => (Nat.eqb x y || Nat.eqb x 1) && bc_ok_rev s' t'
  end.
Definition np_broadcast_to (t s : shape) : option imap :=
  if bc_ok_rev (rev s) (rev t) then Some (mkim t (bproj s)) else None.

(* ------------------------------------------------------------------ *)
(* objects                                                             *)
(* ------------------------------------------------------------------ *)
(* one object without derivatives: values indexed by lead ++ numer ++ denom *)
Record q0 := mkq0 { qlead : shape; qnumer : shape; qdenom : shape;
                    qval : mi -> Z; qmask : mi -> bool }.
(* class ids: 0 Qube 1 Scalar 2 Boolean 3 Vector 4 Vector3 5 Pair 6 Matrix 7 Matrix3 8 Quaternion *)
Record qube := mkq { qcls : nat; qcore : q0; qders : list (nat * q0);
                     qro : option bool  (* None: a fresh copy, flag not part of the projection *) }.

Definition qfull (a : q0) : shape := qlead a ++ qnumer a ++ qdenom a.

(* the three ways an index map is applied to one array-with-mask *)
Definition lead_map (m : imap) (a : q0) : q0 :=
  let k := length (im_out m) in
  mkq0 (im_out m) (qnumer a) (qdenom a)
       (fun i => qval a (im_src m (firstn k i) ++ skipn k i))
       (fun r => qmask a (im_src m r)).
Definition numer_map (m : imap) (a : q0) : q0 :=
  let k := length (qlead a) in
  let n' := length (im_out m) in
  mkq0 (qlead a) (im_out m) (qdenom a)
       (fun i => qval a (firstn k i ++ im_src m (firstn n' (skipn k i)) ++ skipn (k + n') i))
       (qmask a).
Definition denom_map (m : imap) (a : q0) : q0 :=
  let k := length (qlead a) + length (qnumer a) in
  mkq0 (qlead a) (qnumer a) (im_out m)
       (fun i => qval a (firstn k i ++ im_src m (skipn k i)))
       (qmask a).

(* ONE function for the object and every derivative *)
Definition map_q (f : q0 -> q0) (recursive : bool) (ro : option bool) (cls : nat) (q : qube) : qube :=
  mkq cls (f (qcore q))
      (if recursive then map (fun kd => (fst kd, f (snd kd))) (qders q) else [])
      ro.

(* Qube.cast: first suitable class in the list, else unchanged *)
Definition cls_numer (c : nat) : option shape :=
  match c with 1 => Some [] | 2 => Some [] | 4 => Some [3] | 5 => Some [2] | 7 => Some [3;3]
             | 8 => Some [4] | _ => None end.
Definition cls_nrank (c : nat) : option nat :=
  match c with 0 => None | 1 => Some 0 | 2 => Some 0 | 6 => Some 2 | 7 => Some 2 | _ => Some 1 end.
Definition suitable (c : nat) (numer : shape) : bool :=
  match cls_numer c with Some s => shape_eqb s numer | None => true end &&
  match cls_nrank c with Some r => Nat.eqb r (length numer) | None => true end.
Fixpoint cast (cur : nat) (classes : list nat) (numer : shape) : nat :=
  match classes with
  | [] => cur
  | c :: t => if Nat.eqb c cur then cur else if suitable c numer then c else cast cur t numer
  end.

Inductive res := RErr | ROk (l : list qube).

(* ------------------------------------------------------------------ *)
(* leading-axis operations (shaper.py, qube.py broadcast_to)           *)
(* ------------------------------------------------------------------ *)
Definition apply_lead (m : option imap) (recursive : bool) (ro : option bool) (q : qube) : res :=
  match m with
  | None => RErr
  | Some m' => ROk [map_q (lead_map m') recursive ro (qcls q) q]
  end.

(* the rank= extension: (rank - len) unit axes are put in front, then NumPy's function *)
Definition eff_rank (n rank : nat) : option nat :=
  let r := if Nat.eqb rank 0 then n else rank in
  if Nat.ltb r n then None else Some (if Nat.eqb r 0 then 1 else r).
Definition padded (pad : nat) (m : imap) : imap :=
  mkim (im_out m) (fun i => skipn pad (im_src m i)).
Definition with_rank (f : shape -> option imap) (rank : nat) (lead : shape) : option imap :=
  match eff_rank (length lead) rank with
  | None => None
  | Some r =>
      let pad := r - length lead in
      match f (repeat 1 pad ++ lead) with
      | None => None
      | Some m => Some (match lead with [] => im_id [] | _ => padded pad m end)
      end
  end.

Definition lead_flatten (s : shape) : imap :=
  if Nat.ltb (length s) 2 then im_id s else reshape_map s [size s].
(* polymath extension of np.broadcast_to: a single element may be broadcast to () *)
Definition q_broadcast_map (t s : shape) : option imap :=
  match t, s with
  | [], _ :: _ => if Nat.eqb (size s) 1 then Some (mkim [] (fun _ => repeat 0 (length s))) else None
  | _, _ => np_broadcast_to t s
  end.

(* ------------------------------------------------------------------ *)
(* item-axis index maps                                                *)
(* ------------------------------------------------------------------ *)
Definition ix_extract (a ix : nat) (s : shape) : imap :=
  mkim (remove_at a s) (fun j => insert_at a ix j).
Definition ix_slice (a start len : nat) (s : shape) : imap :=
  mkim (set_at a len s) (fun j => set_at a (start + nth a j 0) j).
Definition ix_flip0 (s : shape) : imap :=
  mkim s (fun j => match j with x :: t => (hd 0 s - 1 - x) :: t | [] => [] end).

(* Python index / slice normalisation *)
Definition norm_index (n : nat) (i : Z) : option nat := norm_axis n i.
Definition clip_bound (n : nat) (i : option Z) (dflt : nat) : nat :=
  match i with
  | None => dflt
  | Some z => let z' := if Z.ltb z 0 then (z + Z.of_nat n)%Z else z in
              if Z.ltb z' 0 then 0 else if Z.ltb (Z.of_nat n) z' then n else Z.to_nat z'
  end.

Definition apply_numer (m : imap) (recursive : bool) (ro : option bool) (cls : nat) (q : qube) : res :=
  ROk [map_q (numer_map m) recursive ro cls q].

Definition q_extract_numer (ax ix : Z) (cl : list nat) (recursive : bool) (q : qube) : res :=
  let nu := qnumer (qcore q) in
  match norm_axis (length nu) ax with
  | None => RErr
  | Some a => match norm_index (nth a nu 0) ix with
              | None => RErr
              | Some k => let m := ix_extract a k nu in
                          apply_numer m recursive (qro q) (cast 0 cl (im_out m)) q
              end
  end.

(* as_diagonal on numerator axis 0 of a 1-D item: not a pure relabeling off the diagonal *)
Definition diag_map (a : q0) : q0 :=
  let k := length (qlead a) in
  let n := hd 0 (qnumer a) in
  mkq0 (qlead a) [n; n] (qdenom a)
       (fun i => if Nat.eqb (nth k i 0) (nth (S k) i 0)
                 then qval a (firstn k i ++ nth k i 0 :: skipn (S (S k)) i) else 0%Z)
       (qmask a).

Definition join_map (a : q0) : q0 := mkq0 (qlead a) (qnumer a ++ qdenom a) [] (qval a) (qmask a).
Definition split_map (nr : nat) (a : q0) : q0 :=
  let item := qnumer a ++ qdenom a in
  mkq0 (qlead a) (firstn nr item) (skipn nr item) (qval a) (qmask a).
Definition swap_items_map (a : q0) : q0 :=
  let k := length (qlead a) in
  let d := length (qdenom a) in
  mkq0 (qlead a) (qdenom a) (qnumer a)
       (fun i => qval a (firstn k i ++ skipn (k + d) i ++ firstn d (skipn k i)))
       (qmask a).

(* ------------------------------------------------------------------ *)
(* operations                                                          *)
(* ------------------------------------------------------------------ *)
Inductive op15 :=
| OReshape (t : list Z) (rec : bool)
| OFlatten (rec : bool)
| OSwapAxes (a b : Z) (rec : bool)
| ORollAxis (a st : Z) (rank : nat) (rec : bool)
| OMoveAxis (src dst : list Z) (rank : nat) (rec : bool)
| OBroadcastTo (t : list nat) (rec : bool)
| OExtractNumer (ax ix : Z) (cl : list nat) (rec : bool)
| OSliceNumer (ax : Z) (i1 i2 : option Z) (cl : list nat) (rec : bool)
| OTransposeNumer (a b : Z) (rec : bool)
| OReshapeNumer (t : list nat) (cl : list nat) (rec : bool)
| OFlattenNumer (cl : list nat) (rec : bool)
| OExtractDenom (ax ix : Z) (cl : list nat)
| OTransposeDenom (a b : Z)
| OReshapeDenom (t : list nat)
| OFlattenDenom
| OJoinItems (cl : list nat)
| OSplitItems (nr : nat) (cl : list nat)
| OSwapItems (cl : list nat)
| OAsRow (rec : bool) | OAsColumn (rec : bool) | OAsDiagonal (rec : bool)
| OToScalars (rec : bool) | OToScalar (ix : Z) (rec : bool)
| OSwapXY (rec : bool).

Definition q_reshape_numer (t : shape) (cl : list nat) (rec : bool) (q : qube) : res :=
  let nu := qnumer (qcore q) in
  if Nat.eqb (size t) (size nu)
  then apply_numer (reshape_map nu t) rec (qro q) (cast 0 cl t) q
  else RErr.
Definition q_reshape_denom (t : shape) (q : qube) : res :=
  let de := qdenom (qcore q) in
  if Nat.eqb (size t) (size de) && negb (Nat.eqb (qcls q) 2 && negb (Nat.eqb (length t) 0))
  then ROk [map_q (denom_map (reshape_map de t)) false (qro q) (qcls q) q]
  else RErr.

Fixpoint to_scalars_from (k n : nat) (rec : bool) (q : qube) : list qube :=
  match n with
  | 0 => []
  | S n' => map_q (numer_map (ix_extract 0 k (qnumer (qcore q)))) rec (qro q)
                  (cast 0 [1] (remove_at 0 (qnumer (qcore q)))) q
            :: to_scalars_from (S k) n' rec q
  end.

Definition run_op (o : op15) (q : qube) : res :=
  let c := qcore q in
  let lead := qlead c in
  let nu := qnumer c in
  let de := qdenom c in
  match o with
  | OReshape t rec => apply_lead (np_reshape t lead) rec (qro q) q
  | OFlatten rec => apply_lead (Some (lead_flatten lead)) rec (qro q) q
  | OSwapAxes a b rec => apply_lead (np_swapaxes a b lead) rec (qro q) q
  | ORollAxis a st rank rec => apply_lead (with_rank (np_rollaxis a st) rank lead) rec (qro q) q
  | OMoveAxis s d rank rec => apply_lead (with_rank (np_moveaxis s d) rank lead) rec (qro q) q
  | OBroadcastTo t rec =>
      apply_lead (q_broadcast_map t lead) rec (if shape_eqb t lead then qro q else None) q
  | OExtractNumer ax ix cl rec => q_extract_numer ax ix cl rec q
  | OSliceNumer ax i1 i2 cl rec =>
      match norm_axis (length nu) ax with
      | None => RErr
      | Some a =>
          let n := nth a nu 0 in
          let start := clip_bound n i1 0 in
          let stop := clip_bound n i2 n in
          let m := ix_slice a start (stop - start) nu in
          apply_numer m rec (qro q) (cast 0 cl (im_out m)) q
      end
  | OTransposeNumer a b rec =>
      match norm_axis (length nu) a, norm_axis (length nu) b with
      | Some a', Some b' => apply_numer (np_transpose (swapP a' b' (length nu)) nu) rec (qro q) (qcls q) q
      | _, _ => RErr
      end
  | OReshapeNumer t cl rec => q_reshape_numer t cl rec q
  | OFlattenNumer cl rec => q_reshape_numer [size nu] cl rec q
  | OExtractDenom ax ix cl =>
      match norm_axis (length de) ax with
      | None => RErr
      | Some a => match norm_index (nth a de 0) ix with
                  | None => RErr
                  | Some k => ROk [map_q (denom_map (ix_extract a k de)) false (qro q)
                                         (cast 0 (qcls q :: cl) nu) q]
                  end
      end
  | OTransposeDenom a b =>
      match norm_axis (length de) a, norm_axis (length de) b with
      | Some a', Some b' =>
          ROk [map_q (denom_map (np_transpose (swapP a' b' (length de)) de)) false (qro q) (qcls q) q]
      | _, _ => RErr
      end
  | OReshapeDenom t => q_reshape_denom t q
  | OFlattenDenom => q_reshape_denom [size de] q
  | OJoinItems cl =>
      match de with
      | [] => ROk [map_q (fun a => a) false (qro q) (qcls q) q]
      | _ => ROk [map_q join_map false (qro q) (cast 0 cl (nu ++ de)) q]
      end
  | OSplitItems nr cl =>
      if Nat.ltb (length nu + length de) nr then RErr
      else ROk [map_q (split_map nr) false (qro q) (cast 0 cl (firstn nr (nu ++ de))) q]
  | OSwapItems cl => ROk [map_q swap_items_map false (qro q) (cast 0 cl de) q]
  | OAsRow rec => q_reshape_numer (1 :: nu) [6] rec q
  | OAsColumn rec => q_reshape_numer (nu ++ [1]) [6] rec q
  | OAsDiagonal rec => ROk [map_q diag_map rec None (cast 0 [6] [hd 0 nu; hd 0 nu]) q]
  | OToScalars rec => ROk (to_scalars_from 0 (hd 0 nu) rec q)
  | OToScalar ix rec => q_extract_numer 0 ix [1] rec q
  | OSwapXY rec => apply_numer (ix_flip0 nu) rec (qro q) 5 q
  end.

(* ------------------------------------------------------------------ *)
(* stack / from_scalars                                                *)
(* ------------------------------------------------------------------ *)
Fixpoint bshape_all (l : list shape) : option shape :=
  match l with
  | [] => Some []
  | s :: t => match bshape_all t with
              | None => None
              | Some r => bshape s r
              end
  end.
Definition zero_q0 (lead numer denom : shape) : q0 :=
  mkq0 lead numer denom (fun _ => 0%Z) (fun _ => false).
(* operand k broadcast to the common leading shape *)
Definition bcast_q0 (s : shape) (a : q0) : q0 :=
  let k := length s in
  mkq0 s (qnumer a) (qdenom a)
       (fun i => qval a (bproj (qlead a) (firstn k i) ++ skipn k i))
       (fun r => qmask a (bproj (qlead a) r)).
Definition nth_q0 (k : nat) (l : list q0) : q0 := nth k l (zero_q0 [] [] []).
(* new leading axis 0 *)
Definition stack_q0 (s : shape) (l : list q0) (numer denom : shape) : q0 :=
  mkq0 (length l :: s) numer denom
       (fun i => qval (nth_q0 (hd 0 i) l) (tl i))
       (fun r => qmask (nth_q0 (hd 0 r) l) (tl r)).
(* new first numerator axis; masks are or-ed *)
Definition fromsc_q0 (s : shape) (l : list q0) (denom : shape) : q0 :=
  let k := length s in
  mkq0 s [length l] denom
       (fun i => qval (nth_q0 (nth k i 0) l) (firstn k i ++ skipn (S k) i))
       (fun r => existsb (fun a => qmask a r) l).

Definition all_same_shape (d : shape) (l : list shape) : bool := forallb (shape_eqb d) l.
Definition find_der (key : nat) (q : qube) : option q0 :=
  match find (fun kd => Nat.eqb (fst kd) key) (qders q) with Some kd => Some (snd kd) | None => None end.

(* derivative [key] of a multi-operand constructor; None = absent, Some None = error *)
Definition multi_der (comb : shape -> list q0 -> shape -> q0) (s : shape) (numer : shape)
           (objs : list (option qube)) (key : nat) : option (option q0) :=
  let found := flat_map (fun o => match o with
                                  | Some q => match find_der key q with Some d => [d] | None => [] end
                                  | None => [] end) objs in
  match found with
  | [] => None
  | d0 :: _ =>
      if all_same_shape (qdenom d0) (map qdenom found)
      then Some (Some (comb s (map (fun o => match o with
                                            | Some q => match find_der key q with
                                                        | Some d => bcast_q0 s d
                                                        | None => zero_q0 s numer (qdenom d0)
                                                        end
                                            | None => zero_q0 s numer (qdenom d0)
                                            end) objs) (qdenom d0)))
      else Some None
  end.

Definition multi (is_stack : bool) (cls : nat) (objs : list (option qube)) (rec : bool) : res :=
  let real := flat_map (fun o => match o with Some q => [q] | None => [] end) objs in
  match real with
  | [] => RErr
  | q0' :: _ =>
      let de := qdenom (qcore q0') in
      let nu := qnumer (qcore q0') in
      if negb (all_same_shape de (map (fun q => qdenom (qcore q)) real)) then RErr
      else match bshape_all (map (fun q => qlead (qcore q)) real) with
           | None => RErr
           | Some s =>
               let comb := if is_stack then (fun s l d => stack_q0 s l nu d)
                           else (fun s l d => fromsc_q0 s l d) in
               let core := comb s (map (fun o => match o with
                                                 | Some q => bcast_q0 s (qcore q)
                                                 | None => zero_q0 s nu de end) objs) de in
               let ders := if rec then map (fun key => (key, multi_der comb s nu objs key)) [0; 1] else [] in
               if existsb (fun kd => match snd kd with Some None => true | _ => false end) ders
               then RErr
               else ROk [mkq cls core
                             (flat_map (fun kd => match snd kd with
                                                  | Some (Some d) => [(fst kd, d)]
                                                  | _ => [] end) ders)
                             None]
           end
  end.

(* ------------------------------------------------------------------ *)
(* inputs from case files, observation, comparison                     *)
(* ------------------------------------------------------------------ *)
Record iobj := mkI { i_cls : nat; i_lead : shape; i_numer : shape; i_denom : shape;
                     i_mask : mrepL; i_ders : list (nat * list nat); i_ro : bool;
                     i_bvals : list bool }.
Definition tag_q0 (base : Z) (lead numer denom : shape) (m : mi -> bool) : q0 :=
  mkq0 lead numer denom
       (fun i => (base + 1 + Z.of_nat (ravel (lead ++ numer ++ denom) i))%Z) m.
Definition to_qube (o : iobj) : qube :=
  let m := mget (mrep_of (i_lead o) (i_mask o)) in
  let core :=
    if Nat.eqb (i_cls o) 2
    then mkq0 (i_lead o) [] []
              (fun i => if nth (ravel (i_lead o) i) (i_bvals o) false then 1%Z else 0%Z) m
    else tag_q0 0 (i_lead o) (i_numer o) (i_denom o) m in
  mkq (i_cls o) core
      (map (fun kd => (fst kd, tag_q0 (1000 * (Z.of_nat (fst kd) + 1)) (i_lead o) (i_numer o) (snd kd) m))
           (i_ders o))
      (Some (i_ro o)).

(* what the implementation returned *)
Record oobj := mkO { o_cls : nat; o_shape : list nat; o_numer : list nat; o_denom : list nat;
                     o_vals : list Z; o_mask : list bool; o_ro : bool;
                     o_ders : list (nat * (list nat * list nat * list Z * list bool)) }.
Inductive obs := OOk (l : list oobj) | OErr | OOther | ONp (s : shape) (l : list nat).

(* values with hidden (masked) elements blanked; [hide] = parent mask for derivatives *)
Definition vals_of (a : q0) (hide : mi -> bool) : list Z :=
  let k := length (qlead a) in
  map (fun i => if qmask a (firstn k i) || hide (firstn k i) then 0%Z else qval a i) (all_mi (qfull a)).
Definition mask_of (a : q0) : list bool := map (qmask a) (all_mi (qlead a)).

Fixpoint zlist_eqb (a b : list Z) : bool :=
  match a, b with
  | [], [] => true
  | x :: a', y :: b' => Z.eqb x y && zlist_eqb a' b'
  | _, _ => false
  end.
Fixpoint blist_eqb (a b : list bool) : bool :=
  match a, b with
  | [], [] => true
  | x :: a', y :: b' => Bool.eqb x y && blist_eqb a' b'
  | _, _ => false
  end.

Definition core_match (a : q0) (hide : mi -> bool) (cmp_mask : bool)
           (sh nu de : list nat) (v : list Z) (m : list bool) : bool :=
  shape_eqb (qlead a) sh && shape_eqb (qnumer a) nu && shape_eqb (qdenom a) de &&
  zlist_eqb (vals_of a hide) v && (negb cmp_mask || blist_eqb (mask_of a) m).

Fixpoint ders_match (parent : q0) (cmp_mask : bool) (l : list (nat * q0))
         (o : list (nat * (list nat * list nat * list Z * list bool))) : bool :=
  match l, o with
  | [], [] => true
  | (k, d) :: l', (k', (nu, de, v, m)) :: o' =>
      Nat.eqb k k' && core_match d (qmask parent) cmp_mask (qlead parent) nu de v m &&
      ders_match parent cmp_mask l' o'
  | _, _ => false
  end.

Definition q_match (cmp_dmask : bool) (q : qube) (o : oobj) : bool :=
  Nat.eqb (qcls q) (o_cls o) &&
  core_match (qcore q) (fun _ => false) true (o_shape o) (o_numer o) (o_denom o) (o_vals o) (o_mask o) &&
  match qro q with Some b => Bool.eqb b (o_ro o) | None => true end &&
  ders_match (qcore q) cmp_dmask (qders q) (o_ders o).

Fixpoint qs_match (cmp_dmask : bool) (l : list qube) (o : list oobj) : bool :=
  match l, o with
  | [], [] => true
  | q :: l', x :: o' => q_match cmp_dmask q x && qs_match cmp_dmask l' o'
  | _, _ => false
  end.

Definition res_match (cmp_dmask : bool) (r : res) (o : obs) : bool :=
  match r, o with
  | RErr, OErr => true
  | ROk l, OOk ol => qs_match cmp_dmask l ol
  | _, _ => false
  end.

(* NumPy itself *)
Inductive npf :=
| NSwap (a b : Z) | NRoll (a st : Z) | NMove (s d : list Z) | NReshape (t : list Z)
| NBroadcast (t : list nat).
Definition np_map (f : npf) (s : shape) : option imap :=
  match f with
  | NSwap a b => np_swapaxes a b s
  | NRoll a st => np_rollaxis a st s
  | NMove sr d => np_moveaxis sr d s
  | NReshape t => np_reshape t s
  | NBroadcast t => np_broadcast_to t s
  end.
Fixpoint nlist_eqb (a b : list nat) : bool :=
  match a, b with
  | [], [] => true
  | x :: a', y :: b' => Nat.eqb x y && nlist_eqb a' b'
  | _, _ => false
  end.
Definition np_match (m : option imap) (s : shape) (o : obs) : bool :=
  match m, o with
  | None, OErr => true
  | Some m', ONp os l =>
      shape_eqb (im_out m') os &&
      nlist_eqb (map (fun i => ravel s (im_src m' i)) (all_mi (im_out m'))) l
  | _, _ => false
  end.

Inductive case15 :=
| COp (o : op15) (a : iobj)
| CStack (l : list (option iobj)) (rec : bool)
| CFromScalars (cls : nat) (l : list iobj) (rec : bool)
| CNp (f : npf) (s : shape).

Definition stack_cls (l : list (option iobj)) : nat :=
  match flat_map (fun o => match o with Some x => [i_cls x] | None => [] end) l with
  | c :: _ => c | [] => 0 end.

(* the model's answer (used for replay output) *)
Definition run15 (c : case15) : res :=
  match c with
  | COp o a => run_op o (to_qube a)
  | CStack l rec => multi true (stack_cls l) (map (option_map to_qube) l) rec
  | CFromScalars cls l rec => multi false (cast 0 [cls] [length l]) (map (fun x => Some (to_qube x)) l) rec
  | CNp _ _ => RErr
  end.

(* stack: the value and mask of a None placeholder are not part of the projection *)
Definition blank_placeholders (l : list (option iobj)) (r : res) : res :=
  match r with
  | ROk [q] =>
      let live := fun i => match nth (hd 0 i) l None with Some _ => true | None => false end in
      let f := fun a => mkq0 (qlead a) (qnumer a) (qdenom a)
                             (fun i => if live i then qval a i else 0%Z)
                             (fun i => if live i then qmask a i else false) in
      ROk [mkq (qcls q) (f (qcore q)) (map (fun kd => (fst kd, f (snd kd))) (qders q)) (qro q)]
  | _ => r
  end.

Definition obs_eqb (c : case15) (o : obs) : bool :=
  match c with
  | CNp f s => np_match (np_map f s) s o
  | CStack l _ => res_match false (blank_placeholders l (run15 c)) o
  | CFromScalars _ _ _ => res_match false (run15 c) o
  | COp _ _ => res_match true (run15 c) o
  end.

Fixpoint mism_from (k : nat) (l : list (case15 * obs)) : list nat :=
  match l with
  | [] => []
  | (c, o) :: t => if obs_eqb c o then mism_from (S k) t else k :: mism_from (S k) t
  end.
Definition mismatches := mism_from 0.
