(* C11 model: pickling (polymath/extensions/pickler.py __getstate__/__setstate__,
   _encode_*/_decode_*, qube.py _find_corners/_slicer_from_corners/antimask).
   Proof-free and executable. Values are opaque integers: a float is its 64-bit
   pattern, an integer is its mathematical value, a boolean is 0/1. The external
   compressors (bz2, fpzip) are the fields of a [codec]; the executable instance is
   the identity, the theorems (C11Lemmas.v) assume only their round trips. *)
From Coq Require Import List Arith ZArith Bool.
From PM Require Import Base Mask.
Import ListNotations.

(* ---------------- bits and bytes ---------------- *)
Definition b2z (b : bool) : Z := if b then 1%Z else 0%Z.
(* np.packbits: first bit is the most significant *)
Definition pack8 (b0 b1 b2 b3 b4 b5 b6 b7 : bool) : Z :=
  (128 * b2z b0 + 64 * b2z b1 + 32 * b2z b2 + 16 * b2z b3
   + 8 * b2z b4 + 4 * b2z b5 + 2 * b2z b6 + b2z b7)%Z.
Definition bits_of (z : Z) : list bool :=
  [Z.testbit z 7; Z.testbit z 6; Z.testbit z 5; Z.testbit z 4;
   Z.testbit z 3; Z.testbit z 2; Z.testbit z 1; Z.testbit z 0].
Fixpoint packbits (l : list bool) : list Z :=
  match l with
  | [] => []
  | b0 :: b1 :: b2 :: b3 :: b4 :: b5 :: b6 :: b7 :: r =>
      pack8 b0 b1 b2 b3 b4 b5 b6 b7 :: packbits r
  | _ => [pack8 (nth 0 l false) (nth 1 l false) (nth 2 l false) (nth 3 l false)
                (nth 4 l false) (nth 5 l false) (nth 6 l false) (nth 7 l false)]
  end.
Definition unpackbits (bs : list Z) : list bool := flat_map bits_of bs.

(* little-endian bytes of an integer of byte width w (two's complement) *)
Definition B (w : nat) : Z := (256 ^ Z.of_nat w)%Z.
Fixpoint le_bytes (w : nat) (v : Z) : list Z :=
  match w with 0 => [] | S w' => (v mod 256)%Z :: le_bytes w' (v / 256)%Z end.
Fixpoint le_val (bs : list Z) : Z :=
  match bs with [] => 0%Z | b :: r => (b + 256 * le_val r)%Z end.
Definition enc_int (w : nat) (v : Z) : list Z := le_bytes w (v mod B w)%Z.
Definition dec_int (w : nat) (sg : bool) (bs : list Z) : Z :=
  let u := le_val bs in
  if sg && (B w <=? 2 * u)%Z then (u - B w)%Z else u.

Fixpoint chunk {A} (w k : nat) (l : list A) : list (list A) :=
  match k with 0 => [] | S k' => firstn w l :: chunk w k' (skipn w l) end.

(* values[antimask] and new[antimask] = values; [m] is the MASK (true = masked) *)
Fixpoint gather {A} (m : list bool) (l : list A) : list A :=
  match m, l with
  | b :: m', x :: l' => if b then gather m' l' else x :: gather m' l'
  | _, _ => []
  end.
Fixpoint scatter {A} (m : list bool) (d : A) (g : list A) : list A :=
  match m with
  | [] => []
  | true :: m' => d :: scatter m' d g
  | false :: m' => match g with
                   | x :: g' => x :: scatter m' d g'
                   | [] => d :: scatter m' d []
                   end
  end.

(* ---------------- corners (Qube._find_corners, _slicer) ---------------- *)
Definition mfun (s : shape) (l : list bool) : mi -> bool := fun i => nth (ravel s i) l false.
(* np.any(antimask, other axes)[k] *)
Definition occupied (s : shape) (m : mi -> bool) (a k : nat) : bool :=
  existsb (fun i => negb (m i) && (nth a i 0 =? k)) (all_mi s).
Definition first_occ (s : shape) (m : mi -> bool) (a : nat) : option nat :=
  find (occupied s m a) (seq 0 (nth a s 0)).
Definition last_occ (s : shape) (m : mi -> bool) (a : nat) : option nat :=
  find (occupied s m a) (rev (seq 0 (nth a s 0))).
Definition find_corners (s : shape) (m : mi -> bool) : list nat * list nat :=
  (map (fun a => match first_occ s m a with Some k => k | None => 0 end) (seq 0 (length s)),
   map (fun a => match last_occ s m a with Some k => S k | None => 0 end) (seq 0 (length s))).
Fixpoint sub_mi (a b : list nat) : list nat :=
  match a, b with x :: a', y :: b' => (x - y) :: sub_mi a' b' | _, _ => [] end.
Fixpoint add_mi (a b : list nat) : list nat :=
  match a, b with x :: a', y :: b' => (x + y) :: add_mi a' b' | _, _ => [] end.
Fixpoint inbox (lo hi i : list nat) : bool :=
  match lo, hi, i with
  | [], [], [] => true
  | l :: lo', h :: hi', k :: i' => (l <=? k) && (k <? h) && inbox lo' hi' i'
  | _, _, _ => false
  end.
(* mask[slicer] in row-major order *)
Definition crop (m : mi -> bool) (lo hi : list nat) : list bool :=
  map (fun j => m (add_mi j lo)) (all_mi (sub_mi hi lo)).
(* new = ones(shape); new[slicer] = c   (c has shape cs) *)
Definition uncrop (s : shape) (lo hi : list nat) (cs : shape) (c : list bool) : list bool :=
  map (fun i => if inbox lo hi i then nth (ravel cs (sub_mi i lo)) c true else true) (all_mi s).

(* ---------------- objects and pickled states ---------------- *)
Record codec := mkcodec { bz2c : list Z -> list Z; bz2d : list Z -> list Z;
                          fpzc : list Z -> list Z; fpzd : list Z -> list Z }.
Definition id_codec := mkcodec (fun x => x) (fun x => x) (fun x => x) (fun x => x).

Inductive vkind := KFloat | KInt (w : nat) (sg : bool) | KBool.
(* one object without derivatives. qvals: one row (the item, flattened) per leading
   element, row-major; qscalar: _values_ is a single Python value; qfpz: fpzip is
   able to compress this object's value array (an input of the model: when the real
   fpzip raises "memory buffer overflow" the repaired code stores the literal array;
   on a tree without that repair pickling raises there and no case is generated) *)
Record q0 := mkq0 { qcls : nat; qshape : shape; qnumer : shape; qdenom : shape; qkind : vkind;
                    qscalar : bool; qvals : list (list Z); qmask : mrepL; qdef : list Z;
                    qunits : nat; qro : bool; qfpz : bool }.
Record qube := mkqube { core : q0; derivs : list (nat * q0) }.

Inductive menc := MCorners (lo hi : list nat) | MBool (s : shape) (n : nat).
Inductive venc := VAllMasked | VAntimasked | VFloat | VInt (n w : nat) (sg : bool) | VBool (n sz : nat).
Inductive pmask := PMSame (m : mrepL) | PMBool (b : bool) | PMBytes (bs : list Z).
Inductive pvals := PVSame (rows : list (list Z)) | PVNone | PVLiteral (rows : list (list Z))
                 | PVFpz (n : nat) (bs : list Z) | PVBytes (bs : list Z).
Record pstate0 := mkp0 { pcls : nat; pshape : shape; pnumer : shape; pdenom : shape; pkind : vkind;
                         pdef : list Z; punits : nat; pro : bool;
                         pmaskv : pmask; pvalsv : pvals; pmenc : list menc; pvenc : list venc }.
Record pstate := mkp { pcore : pstate0; pderivs : list (nat * pstate0) }.

Definition isz_of (numer denom : shape) : nat := size (numer ++ denom).
Definition all_masked (m : mrepL) : bool :=
  match m with LS b => b | LA l => forallb (fun b => b) l end.
Definition any_masked (m : mrepL) : bool :=
  match m with LS b => b | LA l => existsb (fun b => b) l end.

Definition CUTOFF := 200.

(* the mask array: corners + crop when the bounding box is smaller, packbits, bz2 *)
Definition enc_mask (cd : codec) (s : shape) (l : list bool) : pmask * list menc :=
  let m := mfun s l in
  let lo := fst (find_corners s m) in
  let hi := snd (find_corners s m) in
  let cs := sub_mi hi lo in
  if shape_eqb cs s then (PMBytes (bz2c cd (packbits l)), [MBool s (size s)])
  else (PMBytes (bz2c cd (packbits (crop m lo hi))), [MCorners lo hi; MBool cs (size cs)]).

Definition nonzero (z : Z) : bool := negb (z =? 0)%Z.

Definition enc_vals (cd : codec) (k : vkind) (fpzok : bool) (rows : list (list Z)) : pvals * list venc :=
  let flat := concat rows in
  match k with
  | KFloat => if (length flat <=? CUTOFF) || negb fpzok then (PVLiteral rows, [VFloat])
              else (PVFpz (length rows) (fpzc cd flat), [VFloat])
  | KInt w sg => (PVBytes (bz2c cd (concat (map (enc_int w) flat))), [VInt (length rows) w sg])
  | KBool => (PVBytes (bz2c cd (packbits (map nonzero flat))), [VBool (length rows) (length flat)])
  end.

Definition base_state (q : q0) (pm : pmask) (pv : pvals) (me : list menc) (ve : list venc) : pstate0 :=
  mkp0 (qcls q) (qshape q) (qnumer q) (qdenom q) (qkind q) (qdef q) (qunits q) (qro q) pm pv me ve.

(* __getstate__ without the derivatives; also the mask through which values were selected *)
Definition getstate0 (cd : codec) (q : q0) : pstate0 * option (list bool) :=
  if qscalar q then (base_state q (PMSame (qmask q)) (PVSame (qvals q)) [] [], None)
  else if all_masked (qmask q) then (base_state q (PMBool true) PVNone [] [VAllMasked], None)
  else
    match (if any_masked (qmask q) then qmask q else LS false) with
    | LS b => let pe := enc_vals cd (qkind q) (qfpz q) (qvals q) in
              (base_state q (PMBool b) (fst pe) [] (snd pe), None)
    | LA l => let me := enc_mask cd (qshape q) l in
              let pe := enc_vals cd (qkind q) (qfpz q) (gather l (qvals q)) in
              (base_state q (fst me) (fst pe) (snd me) (VAntimasked :: snd pe), Some l)
    end.

Definition with_vals_mask (q : q0) (rows : list (list Z)) (m : mrepL) : q0 :=
  mkq0 (qcls q) (qshape q) (qnumer q) (qdenom q) (qkind q) false rows m (qdef q) (qunits q) (qro q) (qfpz q).

Definition getstate (cd : codec) (q : qube) : pstate :=
  let sa := getstate0 cd (core q) in
  mkp (fst sa)
      (map (fun kd =>
              let d := snd kd in
              let d' := match snd sa with
                        | None => d
                        | Some l => with_vals_mask d (gather l (qvals d)) (LS false)
                        end in
              (fst kd, fst (getstate0 cd d'))) (derivs q)).

(* ---- __setstate__ ---- *)
Inductive dmask := DBytes (bs : list Z) | DArr (s : shape) (l : list bool) | DBoolM (b : bool) | DSame (m : mrepL).
Definition dec_mask_step (cd : codec) (full : shape) (st : dmask) (e : menc) : dmask :=
  match e, st with
  | MBool s n, DBytes bs => DArr s (firstn n (unpackbits (bz2d cd bs)))
  | MCorners lo hi, DArr cs c => DArr full (uncrop full lo hi cs c)
  | _, _ => st
  end.
Definition dec_mask (cd : codec) (full : shape) (pm : pmask) (me : list menc) : dmask :=
  fold_left (dec_mask_step cd full) (rev me)
            (match pm with PMSame m => DSame m | PMBool b => DBoolM b | PMBytes bs => DBytes bs end).
Definition mask_of_dmask (d : dmask) : mrepL :=
  match d with DArr _ l => LA l | DBoolM b => LS b | DSame m => m | DBytes _ => LS false end.
Definition antimask_of (m : mrepL) : option (list bool) :=
  match m with LA l => Some l | LS _ => None end.

Inductive dstate := DRaw (pv : pvals) | DRows (rows : list (list Z)).
Definition dec_vals_step (cd : codec) (isz nfull : nat) (def : list Z) (am : option (list bool))
           (st : dstate) (e : venc) : dstate :=
  match e, st with
  | VFloat, DRaw (PVLiteral rows) => DRows rows
  | VFloat, DRaw (PVFpz n bs) => DRows (chunk isz n (fpzd cd bs))
  | VInt n w sg, DRaw (PVBytes bs) =>
      DRows (chunk isz n (map (dec_int w sg) (chunk w (n * isz) (bz2d cd bs))))
  | VBool n sz, DRaw (PVBytes bs) => DRows (chunk isz n (map b2z (firstn sz (unpackbits (bz2d cd bs)))))
  | VAntimasked, DRows rows => match am with Some l => DRows (scatter l def rows) | None => st end
  | VAllMasked, _ => DRows (repeat def nfull)
  | _, _ => st
  end.
Definition rows_of_dstate (d : dstate) : list (list Z) :=
  match d with DRows r => r | DRaw (PVSame r) => r | DRaw (PVLiteral r) => r | DRaw _ => [] end.
Definition is_same (pv : pvals) : bool := match pv with PVSame _ => true | _ => false end.

Definition setstate0 (cd : codec) (p : pstate0) : q0 :=
  let m := mask_of_dmask (dec_mask cd (pshape p) (pmaskv p) (pmenc p)) in
  let rows := rows_of_dstate
                (fold_left (dec_vals_step cd (isz_of (pnumer p) (pdenom p)) (size (pshape p)) (pdef p)
                                          (antimask_of m))
                           (rev (pvenc p)) (DRaw (pvalsv p))) in
  mkq0 (pcls p) (pshape p) (pnumer p) (pdenom p) (pkind p) (is_same (pvalsv p)) rows m (pdef p)
       (punits p) (pro p) true.

Definition with_ro (q : q0) (r : bool) : q0 :=
  mkq0 (qcls q) (qshape q) (qnumer q) (qdenom q) (qkind q) (qscalar q) (qvals q) (qmask q) (qdef q)
       (qunits q) r (qfpz q).

Definition setstate (cd : codec) (p : pstate) : qube :=
  let c := setstate0 cd (pcore p) in
  mkqube c
    (map (fun kd =>
            let d := setstate0 cd (snd kd) in
            let d' := match antimask_of (qmask c) with
                      | Some l => with_vals_mask d (scatter l (qdef d) (qvals d)) (LA l)
                      | None => d
                      end in
            (fst kd, with_ro d' (qro c || qro d'))) (pderivs p)).

(* ---------------- observation ---------------- *)
Definition expand_mask (n : nat) (m : mrepL) : list bool :=
  match m with LS b => repeat b n | LA l => l end.
Definition kind_tag (k : vkind) : nat := match k with KFloat => 0 | KInt _ _ => 1 | KBool => 2 end.

Record obs0 := mko0 { ocls : nat; oshape : shape; onumer : shape; odenom : shape; okind : nat;
                      omask : list bool; ounits : nat; oro : bool; ovals : list (list Z);
                      ovenc : list nat; ofm : nat; ointw : option (nat * bool);
                      ocorn : option (list nat * list nat); ombool : option (list nat * nat) }.
Record obs := mkobs { omain : obs0; oders : list (nat * obs0) }.

Definition venc_tag (e : venc) : nat :=
  match e with VAllMasked => 0 | VAntimasked => 1 | VFloat => 2 | VInt _ _ _ => 3 | VBool _ _ => 4 end.
Definition fm_of (pv : pvals) : nat := match pv with PVLiteral _ => 1 | PVFpz _ _ => 2 | _ => 0 end.
Fixpoint intw_of (l : list venc) : option (nat * bool) :=
  match l with [] => None | VInt _ w sg :: _ => Some (w, sg) | _ :: t => intw_of t end.
Fixpoint corn_of (l : list menc) : option (list nat * list nat) :=
  match l with [] => None | MCorners lo hi :: _ => Some (lo, hi) | _ :: t => corn_of t end.
Fixpoint mbool_of (l : list menc) : option (list nat * nat) :=
  match l with [] => None | MBool s n :: _ => Some (s, n) | _ :: t => mbool_of t end.

Definition obs0_of (q : q0) (p : pstate0) : obs0 :=
  mko0 (qcls q) (qshape q) (qnumer q) (qdenom q) (kind_tag (qkind q))
       (expand_mask (size (qshape q)) (qmask q)) (qunits q) (qro q) (qvals q)
       (map venc_tag (pvenc p)) (fm_of (pvalsv p)) (intw_of (pvenc p)) (corn_of (pmenc p))
       (mbool_of (pmenc p)).

Definition dummy_p0 : pstate0 := mkp0 0 [] [] [] KFloat [] 0 false (PMBool false) PVNone [] [].

Definition run11 (q : qube) : obs :=
  let p := getstate id_codec q in
  let k := setstate id_codec p in
  mkobs (obs0_of (core k) (pcore p))
        (map (fun kp => (fst (fst kp), obs0_of (snd (fst kp)) (snd (snd kp))))
             (combine (derivs k) (pderivs p))).

(* ---- comparison ---- *)
Fixpoint list_eqb {A} (e : A -> A -> bool) (a b : list A) : bool :=
  match a, b with
  | [], [] => true
  | x :: a', y :: b' => e x y && list_eqb e a' b'
  | _, _ => false
  end.
Definition opt_eqb {A} (e : A -> A -> bool) (a b : option A) : bool :=
  match a, b with None, None => true | Some x, Some y => e x y | _, _ => false end.
Definition natl_eqb := list_eqb Nat.eqb.
Definition field_flags (x y : obs0) : list bool :=
  [Nat.eqb (ocls x) (ocls y); natl_eqb (oshape x) (oshape y); natl_eqb (onumer x) (onumer y);
   natl_eqb (odenom x) (odenom y); Nat.eqb (okind x) (okind y); list_eqb Bool.eqb (omask x) (omask y);
   Nat.eqb (ounits x) (ounits y); Bool.eqb (oro x) (oro y);
   list_eqb (list_eqb Z.eqb) (ovals x) (ovals y); natl_eqb (ovenc x) (ovenc y);
   Nat.eqb (ofm x) (ofm y);
   opt_eqb (fun p r => Nat.eqb (fst p) (fst r) && Bool.eqb (snd p) (snd r)) (ointw x) (ointw y);
   opt_eqb (fun p r => natl_eqb (fst p) (fst r) && natl_eqb (snd p) (snd r)) (ocorn x) (ocorn y);
   opt_eqb (fun p r => natl_eqb (fst p) (fst r) && Nat.eqb (snd p) (snd r)) (ombool x) (ombool y)].
Definition obs0_eqb (x y : obs0) : bool := forallb (fun b => b) (field_flags x y).
Definition obs_eqb (x y : obs) : bool :=
  obs0_eqb (omain x) (omain y) &&
  list_eqb (fun p r => Nat.eqb (fst p) (fst r) && obs0_eqb (snd p) (snd r)) (oders x) (oders y).

(* which fields differ (for replay files): positions in [field_flags], per object *)
Fixpoint false_pos (k : nat) (l : list bool) : list nat :=
  match l with [] => [] | b :: t => if b then false_pos (S k) t else k :: false_pos (S k) t end.
Definition explain (q : qube) (o : obs) : list (list nat) :=
  let m := run11 q in
  false_pos 0 (field_flags (omain m) (omain o)) ::
  [length (oders m); length (oders o)] ::
  map (fun pr => false_pos 0 (field_flags (snd (fst pr)) (snd (snd pr)))) (combine (oders m) (oders o)).

Fixpoint mism_from (k : nat) (l : list (qube * obs)) : list nat :=
  match l with
  | [] => []
  | (c, o) :: t => if obs_eqb (run11 c) o then mism_from (S k) t else k :: mism_from (S k) t
  end.
Definition mismatches := mism_from 0.

(* ---------------- effects of __getstate__ on the pickled object itself ---------------- *)
(* The code works on clone = self.clone(recursive=False): PICKLE_VERSION, VALS_ENCODING,
   MASK_ENCODING, _pickle_digits/_pickle_reference (by _check_pickle_digits) and the encoded
   _mask_/_values_ are attributes of the clone. On self it only reads; the properties
   self.corners / self.antimask / self._slicer fill self._cache_ (keys 0,1,2 here). *)
Record pyobj := mkpy { py_q : qube; py_cache : list nat; py_attrs : list nat }.
Definition getstate_eff (cd : codec) (o : pyobj) : pyobj * pstate :=
  let touched := match snd (getstate0 cd (core (py_q o))) with Some _ => [0; 1; 2] | None => [] end in
  (mkpy (py_q o) (touched ++ py_cache o) (py_attrs o), getstate cd (py_q o)).
