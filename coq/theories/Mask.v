(* Mask: mask representations shared by all property models. Proof-free part
   first, the specification lemma of Qube.or_ at the end. *)
From Coq Require Import List Arith Bool.
From PM Require Import Base.
Import ListNotations.

(* mask representation: one Python bool, or an array (possibly a broadcast view) *)
Inductive mrep := MS (b : bool) | MA (f : mi -> bool).
Definition mget (m : mrep) (i : mi) : bool :=
  match m with MS b => b | MA f => f i end.

(* Qube.or_ of the masks of two operands of shapes s1, s2, as seen from the
   broadcast result: scalar short cuts first, array "or" otherwise *)
Definition or_m (m1 m2 : mrep) (s1 s2 : shape) : mrep :=
  match m1, m2 with
  | MS true, _ => MS true
  | MS false, MS b => MS b
  | MS false, MA f => MA (fun r => f (bproj s2 r))
  | MA f, MS true => MS true
  | MA f, MS false => MA (fun r => f (bproj s1 r))
  | MA f, MA g => MA (fun r => f (bproj s1 r) || g (bproj s2 r))
  end.
(* Qube.and_ likewise *)
Definition and_m (m1 m2 : mrep) (s1 s2 : shape) : mrep :=
  match m1, m2 with
  | MS false, _ => MS false
  | MS true, MS b => MS b
  | MS true, MA f => MA (fun r => f (bproj s2 r))
  | MA f, MS false => MS false
  | MA f, MS true => MA (fun r => f (bproj s1 r))
  | MA f, MA g => MA (fun r => f (bproj s1 r) && g (bproj s2 r))
  end.

(* list forms used in generated case files *)
Inductive mrepL := LS (b : bool) | LA (l : list bool).
Definition mrep_of (s : shape) (m : mrepL) : mrep :=
  match m with LS b => MS b | LA l => MA (fun i => nth (ravel s i) l false) end.

Fixpoint shape_eqb (a b : list nat) : bool :=
  match a, b with
  | [], [] => true
  | x :: a', y :: b' => Nat.eqb x y && shape_eqb a' b'
  | _, _ => false
  end.

Lemma or_m_spec m1 m2 s1 s2 r :
  mget (or_m m1 m2 s1 s2) r = mget m1 (bproj s1 r) || mget m2 (bproj s2 r).
Proof.
  destruct m1 as [[|]|f], m2 as [[|]|g]; simpl; auto;
    try (destruct (f _); reflexivity); try (rewrite orb_false_r; reflexivity).
Qed.
Lemma and_m_spec m1 m2 s1 s2 r :
  mget (and_m m1 m2 s1 s2) r = mget m1 (bproj s1 r) && mget m2 (bproj s2 r).
Proof.
  destruct m1 as [[|]|f], m2 as [[|]|g]; simpl; auto;
    try (destruct (f _); reflexivity); try (rewrite andb_true_r; reflexivity);
    try (rewrite andb_false_r; reflexivity).
Qed.
Lemma shape_eqb_eq a : forall b, shape_eqb a b = true <-> a = b.
Proof.
  induction a as [|x a IH]; intros [|y b]; simpl; split; intro H; try discriminate; auto.
  - apply andb_true_iff in H. destruct H as [H1 H2]. apply Nat.eqb_eq in H1. apply IH in H2.
    subst; reflexivity.
  - inversion H; subst. rewrite Nat.eqb_refl. apply IH. reflexivity.
Qed.
