(* C19 proofs: a check-first program never commits before it fails *)
From Coq Require Import List Bool.
From PM Require Import C19Model.
Import ListNotations.

Lemma exec_no_checks ps present c : no_checks ps = true -> exec ps present c = OOk.
Proof.
  revert c; induction ps as [|p ps IH]; intros c H; simpl in *; auto.
  destruct p; [discriminate|]. apply IH. exact H.
Qed.

(* U: any check-first program, any set of faults: a failure happens before any commit *)
Lemma check_first_atomic ps present e changed :
  check_first ps = true -> exec ps present false = OErr e changed -> changed = false.
Proof.
  induction ps as [|p ps IH]; intros H E; simpl in *; [discriminate|].
  destruct p as [f e0|].
  - destruct (has f present).
    + inversion E. reflexivity.
    + apply IH; auto.
  - rewrite exec_no_checks in E by exact H. discriminate.
Qed.

Lemma check_first_program o a t : check_first (program o a t) = true.
Proof.
  unfold program. induction (checks o a t) as [|p l IH]; simpl; auto.
Qed.

(* every modelled mutator, every argument form, every target kind, every fault set *)
Lemma run19_atomic c e changed : run19 c = OErr e changed -> changed = false.
Proof. unfold run19. apply check_first_atomic. apply check_first_program. Qed.

(* the exception is one of the three documented families *)
Lemma exec_family ps present c e ch :
  (forall f e', In (Check f e') ps -> e' = ValueErr \/ e' = TypeErr \/ e' = IndexErr) ->
  exec ps present c = OErr e ch -> e = ValueErr \/ e = TypeErr \/ e = IndexErr.
Proof.
  revert c; induction ps as [|p ps IH]; intros c H E; simpl in *; [discriminate|].
  destruct p as [f e0|].
  - destruct (has f present).
    + inversion E; subst. apply (H f e). left; reflexivity.
    + apply (IH c); auto. intros f' e' Hin. apply (H f' e'). right; exact Hin.
  - apply (IH true); auto. intros f' e' Hin. apply (H f' e'). right; exact Hin.
Qed.
Lemma checks_families o a t f e :
  In (f, e) (checks o a t) -> e = ValueErr \/ e = TypeErr \/ e = IndexErr.
Proof.
  destruct o, a, t; simpl; intro H;
    repeat (destruct H as [H|H]; [inversion H; auto|]); try contradiction.
Qed.
Lemma run19_family c e ch : run19 c = OErr e ch -> e = ValueErr \/ e = TypeErr \/ e = IndexErr.
Proof.
  unfold run19. apply exec_family. intros f e' Hin. unfold program in Hin.
  apply in_app_or in Hin. destruct Hin as [Hin|[Hin|[]]]; [|discriminate].
  apply in_map_iff in Hin. destruct Hin as ([f0 e0] & Heq & Hin). inversion Heq; subst.
  eapply checks_families; eauto.
Qed.

(* a read-only target is always rejected, with ValueError, whatever else is wrong *)
Lemma run19_readonly c : has FReadonly (c_faults c) = true -> run19 c = OErr ValueErr false.
Proof.
  intro H. unfold run19, program.
  assert (E : existsb (fault_eqb FReadonly) (c_faults c) = true) by exact H.
  destruct (c_op c), (c_form c), (c_t c); simpl; rewrite E; reflexivity.
Qed.

(* with no fault present, the supported combinations succeed *)
Lemma run19_no_fault o a t :
  existsb (fun p => fault_eqb (fst p) FAlways) (checks o a t) = false ->
  run19 (mkcase o a t []) = OOk.
Proof.
  destruct o, a, t; simpl; intro H; try discriminate; reflexivity.
Qed.

(* a late check is what the theorem excludes: a program that commits first is not atomic *)
Lemma late_check_not_atomic :
  exists ps present e, check_first ps = false /\ exec ps present false = OErr e true.
Proof. exists [Commit; Check FDerivDenom ValueErr], [FDerivDenom], ValueErr. split; reflexivity. Qed.
