(* C17 model: shrink / unshrink (extensions/shrinker.py) for a 1-D antimask and
   operands that are shapeless or have the antimask's shape, and element-wise
   expression trees evaluated on them.  Objects are (shaped?, length, element
   function); an element is (value, masked).  Proof-free. *)
From Coq Require Import List Arith ZArith Bool.
Import ListNotations.

Definition elem := (Z * bool)%type.            (* value, masked *)
Record sobj := mks { shaped : bool; len : nat; get : nat -> elem }.
(* element seen at position i of the common (broadcast) shape *)
Definition at_ (o : sobj) (i : nat) : elem := if shaped o then get o i else get o 0.

Definition dflt : Z := 1%Z.                     (* Scalar default value under a mask *)
Definition masked_single : sobj := mks false 1 (fun _ => (dflt, true)).

(* antimask: one Python bool, or an array *)
Inductive amask := AS (b : bool) | AA (l : list bool).

Fixpoint positions_from (k : nat) (l : list bool) : list nat :=
  match l with [] => [] | b :: t => if b then k :: positions_from (S k) t else positions_from (S k) t end.
Definition positions (l : list bool) : list nat := positions_from 0 l.

Definition all_masked_on (o : sobj) (ps : list nat) : bool := forallb (fun p => snd (at_ o p)) ps.

(* shrink *)
Definition shrink (am : amask) (o : sobj) : sobj :=
  match am with
  | AS true => o
  | AS false => masked_single
  | AA l =>
      let ps := positions l in
      if all_masked_on o ps then masked_single       (* also covers "no True in the antimask" *)
      else if negb (shaped o) then o
      else mks true (length ps) (fun k => get o (nth k ps 0))
  end.

Definition all_masked (o : sobj) : bool :=
  if shaped o then forallb (fun i => snd (get o i)) (seq 0 (len o)) else snd (get o 0).

Fixpoint index_of (p : nat) (ps : list nat) (k : nat) : option nat :=
  match ps with [] => None | q :: t => if Nat.eqb p q then Some k else index_of p t (S k) end.

(* unshrink *)
Definition unshrink (am : amask) (s : sobj) : sobj :=
  match am with
  | AS true => s
  | AS false => masked_single
  | AA l =>
      let ps := positions l in
      if (match ps with [] => true | _ => false end) || all_masked s then masked_single
      else if negb (shaped s) then s
      else mks true (length l)
             (fun i => match index_of i ps 0 with
                       | Some k => get s k
                       | None => (dflt, true)
                       end)
  end.

(* with Qube._DISABLE_SHRINKING: shrink is mask_where(~antimask), unshrink the identity *)
Definition shrink_disabled (am : amask) (o : sobj) : sobj :=
  match am with
  | AS true => o
  | AS false => if shaped o then mks true (len o) (fun i => (fst (get o i), true)) else o
  | AA l => if shaped o then mks true (len o) (fun i => (fst (get o i), snd (get o i) || negb (nth i l false)))
            else o
  end.

(* element-wise expressions *)
Inductive bop := BAdd | BSub | BMul.
Inductive uop := UNeg | UAbs.
Inductive expr := Leaf (x : nat) | Un (u : uop) (e : expr) | Bin (b : bop) (e1 e2 : expr) | Const (z : Z).

Definition bop_z (b : bop) (x y : Z) : Z :=
  match b with BAdd => (x + y)%Z | BSub => (x - y)%Z | BMul => (x * y)%Z end.
Definition uop_z (u : uop) (x : Z) : Z := match u with UNeg => (- x)%Z | UAbs => Z.abs x end.
Definition bin_elem (b : bop) (x y : elem) : elem := (bop_z b (fst x) (fst y), snd x || snd y).
Definition un_elem (u : uop) (x : elem) : elem := (uop_z u (fst x), snd x).

Definition obj_bin (b : bop) (a c : sobj) : sobj :=
  mks (shaped a || shaped c) (if shaped a then len a else len c)
      (fun i => bin_elem b (at_ a i) (at_ c i)).
Definition obj_un (u : uop) (a : sobj) : sobj := mks (shaped a) (len a) (fun i => un_elem u (get a i)).
Definition obj_const (z : Z) : sobj := mks false 1 (fun _ => (z, false)).

Fixpoint eval (env : nat -> sobj) (e : expr) : sobj :=
  match e with
  | Leaf x => env x
  | Un u e1 => obj_un u (eval env e1)
  | Bin b e1 e2 => obj_bin b (eval env e1) (eval env e2)
  | Const z => obj_const z
  end.

(* observable equality of elements: same mask state, same value when unmasked *)
Definition oeq (x y : elem) : Prop := snd x = snd y /\ (snd x = false -> fst x = fst y).
Definition oeqb (x y : elem) : bool := Bool.eqb (snd x) (snd y) && (snd x || Z.eqb (fst x) (fst y)).

(* ---- case evaluation for the correspondence ---- *)
Definition of_lists (sh : bool) (vs : list Z) (ms : list bool) : sobj :=
  mks sh (length vs) (fun i => (nth i vs 0%Z, nth i ms false)).
Definition obs_sel (am : amask) (n : nat) (o : sobj) : list (option Z) :=
  let sel := match am with AS true => seq 0 n | AS false => [] | AA l => positions l end in
  map (fun i => let x := at_ o i in if snd x then None else Some (fst x)) sel.

Record case17 := mkc17 { c_am : amask; c_n : nat; c_env : list sobj; c_e : expr }.
Definition env_of (l : list sobj) (x : nat) : sobj := nth x l masked_single.
(* direct evaluation, shrunk evaluation + unshrink, and with shrinking disabled *)
Definition run_direct (c : case17) := obs_sel (c_am c) (c_n c) (eval (env_of (c_env c)) (c_e c)).
Definition run_shrunk (c : case17) :=
  obs_sel (c_am c) (c_n c)
          (unshrink (c_am c) (eval (env_of (map (shrink (c_am c)) (c_env c))) (c_e c))).
Definition run_disabled (c : case17) :=
  obs_sel (c_am c) (c_n c) (eval (env_of (map (shrink_disabled (c_am c)) (c_env c))) (c_e c)).

Definition oz_eqb (a b : option Z) : bool :=
  match a, b with Some x, Some y => Z.eqb x y | None, None => true | _, _ => false end.
Fixpoint loz_eqb (a b : list (option Z)) : bool :=
  match a, b with [] , [] => true | x :: a', y :: b' => oz_eqb x y && loz_eqb a' b' | _, _ => false end.
(* impl triple: (direct, shrunk+unshrunk, disabled) *)
Fixpoint mism_from (k : nat) (l : list (case17 * (list (option Z) * list (option Z) * list (option Z)))) : list nat :=
  match l with
  | [] => []
  | (c, (d, s, x)) :: t =>
      if loz_eqb (run_direct c) d && loz_eqb (run_shrunk c) s && loz_eqb (run_disabled c) x
      then mism_from (S k) t else k :: mism_from (S k) t
  end.
Definition mismatches := mism_from 0.
