(* C04 proofs. U = unbounded, B = bounded-exhaustive by vm_compute (bound in the
   statement). Oracle kernels (true division, negative powers, libm) are the
   arbitrary function [k] / table [t] in every statement. *)
From Coq Require Import List Arith ZArith Bool Lia.
From PM Require Import Base Mask C04Model.
Import ListNotations.

Arguments bproj : simpl never.
Arguments bshape : simpl never.
Arguments all_mi : simpl never.

(* ------------------------------------------------------------------ *)
(* list helpers                                                        *)
(* ------------------------------------------------------------------ *)
Lemma firstn_len_app {A} (r j : list A) n : length r = n -> firstn n (r ++ j) = r.
Proof.
  intro H. subst n. rewrite firstn_app, Nat.sub_diag, firstn_all. simpl. apply app_nil_r.
Qed.
Lemma skipn_len_app {A} (r j : list A) n : length r = n -> skipn n (r ++ j) = j.
Proof.
  intro H. subst n. rewrite skipn_app, Nat.sub_diag, skipn_all. reflexivity.
Qed.

(* ------------------------------------------------------------------ *)
(* U: value semantics is pointwise; items are never projected          *)
(* ------------------------------------------------------------------ *)
Lemma ew2_spec k la lb L fa fb r j : length r = length L ->
  ew2 k la lb L fa fb (r ++ j) = k (fa (bproj la r ++ j)) (fb (bproj lb r ++ j)).
Proof.
  intro H. unfold ew2. rewrite (firstn_len_app r j _ H), (skipn_len_app r j _ H). reflexivity.
Qed.

Lemma scale2_spec k lx ls L nx dx ds fx fs xl r n d :
  length r = length L -> length n = length nx ->
  scale2 k lx ls L nx dx ds fx fs xl (r ++ n ++ d) =
    let xv := fx (bproj lx r ++ n ++ dsel dx d) in
    let sv := fs (bproj ls r ++ dsel ds d) in
    if xl then k xv sv else k sv xv.
Proof.
  intros Hr Hn. unfold scale2.
  rewrite (firstn_len_app r (n ++ d) _ Hr), (skipn_len_app r (n ++ d) _ Hr).
  rewrite (firstn_len_app n d _ Hn), (skipn_len_app n d _ Hn). reflexivity.
Qed.

Lemma matmul_spec la lb L q rest da db fa fb r i c d :
  length r = length L -> length c = length rest ->
  matmul la lb L q rest da db fa fb (r ++ [i] ++ c ++ d) =
    (zsum (map (fun t => (fa (bproj la r ++ [i] ++ [t] ++ dsel da d)
                          * fb (bproj lb r ++ [t] ++ c ++ dsel db d))%Z) (seq 0 q)), 1%Z).
Proof.
  intros Hr Hc. unfold matmul.
  rewrite (firstn_len_app r ([i] ++ c ++ d) _ Hr), (skipn_len_app r ([i] ++ c ++ d) _ Hr).
  change (firstn 1 ([i] ++ c ++ d)) with [i]. change (skipn 1 ([i] ++ c ++ d)) with (c ++ d).
  rewrite (firstn_len_app c d _ Hc), (skipn_len_app c d _ Hc). reflexivity.
Qed.

(* as_int keeps the data and the leading shape *)
Lemma as_int_get a : oget (as_int a) = oget a.
Proof. unfold as_int. destruct (cls_eqb (ocls a) CBoolean); reflexivity. Qed.
Lemma as_int_lead a : olead (as_int a) = olead a.
Proof. unfold as_int. destruct (cls_eqb (ocls a) CBoolean); reflexivity. Qed.
Lemma as_int_form a : oform a = FQ -> oform (as_int a) = FQ.
Proof. unfold as_int. destruct (cls_eqb (ocls a) CBoolean); auto. Qed.

Lemma mk_ok c kd L n d u g res : mk c kd L n d u g = Ok res ->
  rlead res = L /\ rnumer res = n /\ rdenom res = d /\ rget res = g /\ rcls res = c
  /\ rkind res = coerce c kd.
Proof.
  unfold mk. destruct (some_unit u && negb (units_ok c)); [discriminate|].
  destruct (fixed_numer c) as [f|].
  - destruct (shape_eqb f n); [|discriminate]. intro H. inversion H; subst; simpl. repeat split.
  - intro H. inversion H; subst; simpl. repeat split.
Qed.

(* the element-wise core of + and - *)
Lemma q_addsub_spec k self arg orig swap res :
  q_addsub k self arg orig swap = Ok res ->
  exists g, rget res = Some g /\
    bshape (olead self) (olead arg) = Some (rlead res) /\
    rnumer res = onumer self /\ rdenom res = odenom self /\
    onumer self = onumer arg /\ odenom self = odenom arg /\
    units_match (ounit self) (ounit arg) = true /\
    rcls res = ocls self /\
    rkind res = coerce (ocls self) (promote (okind self) (okind arg)) /\
    forall r j, length r = length (rlead res) ->
      g (r ++ j) = let x := oget self (bproj (olead self) r ++ j) in
                   let y := oget arg (bproj (olead arg) r ++ j) in
                   if swap then k y x else k x y.
Proof.
  unfold q_addsub. intro H.
  destruct (units_match (ounit self) (ounit arg)) eqn:EU; simpl in H; [|discriminate].
  destruct (shape_eqb (onumer self) (onumer arg)) eqn:EN; simpl in H.
  2:{ destruct (cls_eqb (ocls self) (ocls arg)); discriminate. }
  destruct (shape_eqb (odenom self) (odenom arg)) eqn:ED; simpl in H; [|discriminate].
  destruct (bshape (olead self) (olead arg)) as [L|] eqn:EB; [|discriminate].
  apply mk_ok in H. destruct H as (HL & Hn & Hd & Hg & Hc & Hk).
  apply shape_eqb_eq in EN. apply shape_eqb_eq in ED.
  eexists. split; [exact Hg|]. rewrite HL. repeat split; auto.
  intros r j Hr. rewrite ew2_spec by exact Hr. destruct swap; reflexivity.
Qed.

(* the scalar-aligned core of * / // % *)
Lemma by_scalar_spec k o self arg xl res :
  by_scalar k o self arg xl = Ok res ->
  exists g, rget res = Some g /\
    bshape (olead self) (olead arg) = Some (rlead res) /\
    rnumer res = onumer self /\
    rdenom res = (match odenom self with [] => odenom arg | _ => odenom self end) /\
    rcls res = ocls self /\
    forall r n d, length r = length (rlead res) -> length n = length (onumer self) ->
      g (r ++ n ++ d) =
        let xv := oget self (bproj (olead self) r ++ n ++ dsel (odenom self) d) in
        let sv := oget arg (bproj (olead arg) r ++ dsel (odenom arg) d) in
        if xl then k xv sv else k sv xv.
Proof.
  unfold by_scalar. intro H.
  destruct (bshape (olead self) (olead arg)) as [L|] eqn:EB; [|discriminate].
  apply mk_ok in H. destruct H as (HL & Hn & Hd & Hg & Hc & Hk).
  eexists. split; [exact Hg|]. rewrite HL. repeat split; auto.
  intros r n d Hr Hnn. apply scale2_spec; assumption.
Qed.

(* top level, two polymath operands, + and - *)
Theorem value_pointwise_addsub t o a b res :
  (o = OAdd \/ o = OSub) -> oform a = FQ -> oform b = FQ ->
  binop t o a b = Ok res ->
  exists g, rget res = Some g /\
    bshape (olead a) (olead b) = Some (rlead res) /\
    forall r j, length r = length (rlead res) ->
      g (r ++ j) = kern t o (oget a (bproj (olead a) r ++ j)) (oget b (bproj (olead b) r ++ j)).
Proof.
  intros Ho Ha Hb H.
  assert (H' : add_method (kern t o) (as_int a) b false = Ok res).
  { destruct Ho; subst o; simpl in H; unfold addsub_top in H; rewrite Ha in H; exact H. }
  clear H. unfold add_method in H'.
  unfold is_num, is_q in H'. rewrite Hb in H'. simpl in H'.
  apply q_addsub_spec in H'. destruct H' as (g & Hg & HB & _ & _ & _ & _ & _ & _ & _ & Hv).
  rewrite !as_int_lead in HB. exists g. split; auto. split; auto.
  intros r j Hr. rewrite (Hv r j Hr). simpl. rewrite !as_int_get, !as_int_lead. reflexivity.
Qed.

(* top level, X op S with S a Scalar/Boolean object on the right: * / // % *)
Theorem value_pointwise_scale t o a b res :
  (o = OMul \/ o = ODiv \/ o = OFloor \/ o = OMod) ->
  oform a = FQ -> oform b = FQ -> onumer b = [] ->
  (ocls b = CScalar \/ ocls b = CBoolean) ->
  ocls a <> CMatrix3 -> ocls a <> CBoolean ->
  binop t o a b = Ok res ->
  exists g, rget res = Some g /\
    bshape (olead a) (olead b) = Some (rlead res) /\
    rnumer res = onumer a /\ rcls res = ocls a /\
    forall r n d, length r = length (rlead res) -> length n = length (onumer a) ->
      g (r ++ n ++ d) =
        kern t o (oget a (bproj (olead a) r ++ n ++ dsel (odenom a) d))
                 (oget b (bproj (olead b) r ++ dsel (odenom (as_int b)) d)).
Proof.
  intros Ho Ha Hb Hnb Hcb HM3 HB H.
  assert (Ea : as_int a = a).
  { unfold as_int. destruct (ocls a); try reflexivity. congruence. }
  assert (Hnb' : nrank (as_int b) = 0).
  { unfold as_int, nrank. destruct (cls_eqb (ocls b) CBoolean); simpl; auto. rewrite Hnb. auto. }
  assert (Hqb : is_q b = true) by (unfold is_q; rewrite Hb; reflexivity).
  assert (Hnumb : is_num b = false) by (unfold is_num; rewrite Hb; reflexivity).
  assert (Hql : quat_like b = false).
  { unfold quat_like. rewrite Hqb, Hnb. destruct Hcb as [E|E]; rewrite E; reflexivity. }
  assert (Hcm : cls_eqb (ocls a) CMatrix3 = false) by (destruct (ocls a); auto; congruence).
  assert (Core : exists xl, by_scalar (kern t o) o a (as_int b) true = Ok res /\ xl = true).
  { exists true. split; auto.
    destruct Ho as [->|[->|[->| ->]]]; simpl in H.
    - (* mul *)
      unfold mul_top in H. rewrite Ha, Hb in H.
      assert (Hvq : cls_eqb (ocls a) CVector && cls_eqb (ocls b) CQuaternion = false).
      { destruct Hcb as [E|E]; rewrite E; apply andb_false_r. }
      rewrite Hvq, Ea in H. unfold mul_method in H. rewrite Hcm, Hql, andb_false_r in H.
      unfold qube_mul in H. rewrite Hnumb, Hqb in H.
      destruct (nonempty (odenom a) && nonempty (odenom (as_int b))); [discriminate|].
      rewrite Hnb' in H. simpl in H. exact H.
    - (* div *)
      unfold div_top in H. rewrite Ha, Ea in H. rewrite Hql, andb_false_r in H.
      unfold qube_div in H. rewrite Hnumb, Hqb, Hnb' in H. simpl in H.
      destruct (nonempty (odenom (as_int b))); [discriminate|]. exact H.
    - (* floordiv *)
      unfold floormod_top in H. rewrite Ha, Ea in H. unfold floormod_method in H.
      destruct (nrank a =? 2); [discriminate|]. rewrite Hnumb, Hqb in H. simpl in H.
      destruct (nonempty (odenom (as_int b))); [discriminate|]. rewrite Hnb' in H. exact H.
    - (* mod *)
      unfold floormod_top in H. rewrite Ha, Ea in H. unfold floormod_method in H.
      destruct (nrank a =? 2); [discriminate|]. rewrite Hnumb, Hqb in H. simpl in H.
      destruct (nonempty (odenom (as_int b))); [discriminate|]. rewrite Hnb' in H. exact H. }
  destruct Core as (xl & Hc & ->).
  apply by_scalar_spec in Hc. destruct Hc as (g & Hg & HBs & Hn & _ & Hcl & Hv).
  rewrite as_int_lead in HBs. exists g. repeat split; auto.
  intros r n d Hr Hnn. rewrite (Hv r n d Hr Hnn). simpl. rewrite as_int_get, as_int_lead. reflexivity.
Qed.

(* matrix applied to a vector / matrix: contraction over the item axes only *)
Theorem value_pointwise_matmul self arg res :
  mat_product self arg = Ok res ->
  exists g p q rest, rget res = Some g /\ onumer self = [p; q] /\ onumer arg = q :: rest /\
    bshape (olead self) (olead arg) = Some (rlead res) /\ rnumer res = p :: rest /\
    forall r i c d, length r = length (rlead res) -> length c = length rest ->
      g (r ++ [i] ++ c ++ d) =
        (zsum (map (fun t => (oget self (bproj (olead self) r ++ [i] ++ [t] ++ dsel (odenom self) d)
                              * oget arg (bproj (olead arg) r ++ [t] ++ c ++ dsel (odenom arg) d))%Z)
                   (seq 0 q)), 1%Z).
Proof.
  unfold mat_product. intro H.
  destruct (nonempty (odenom self) && nonempty (odenom arg)); [discriminate|].
  destruct (onumer self) as [|p [|q [|x ns]]] eqn:ES; try discriminate.
  destruct (onumer arg) as [|q' rest] eqn:EA; try discriminate.
  destruct (Nat.eqb q q') eqn:EQ; simpl in H; [|discriminate].
  apply Nat.eqb_eq in EQ. subst q'.
  destruct (bshape (olead self) (olead arg)) as [L|] eqn:EB; [|discriminate].
  apply mk_ok in H. destruct H as (HL & Hn & Hd & Hg & _ & _).
  exists (matmul (olead self) (olead arg) L q rest (odenom self) (odenom arg) (oget self) (oget arg)),
         p, q, rest.
  rewrite HL. repeat split; auto.
  intros r i c d Hr Hc. apply matmul_spec; assumption.
Qed.

(* ------------------------------------------------------------------ *)
(* U: the result item shape comes from the item rule alone; the         *)
(* constructor's split never lets a leading axis meet an item axis      *)
(* ------------------------------------------------------------------ *)
Lemma split_shape_spec L n d :
  split_shape (length n) (length d) (L ++ n ++ d) = (L, n, d).
Proof.
  unfold split_shape. rewrite !app_length.
  replace (length L + (length n + length d) - (length n + length d)) with (length L) by lia.
  rewrite (firstn_len_app L (n ++ d) _ eq_refl), (skipn_len_app L (n ++ d) _ eq_refl).
  rewrite (firstn_len_app n d _ eq_refl).
  rewrite skipn_app.
  replace (length L + length n - length L) with (length n) by lia.
  rewrite (skipn_all2 L) by lia. simpl. rewrite (skipn_len_app n d _ eq_refl). reflexivity.
Qed.

(* a leading axis and an item axis of the same length n stay apart: the split is by
   position (numerator / denominator rank), never by length *)
Lemma split_shape_same_length (n : nat) :
  split_shape 1 0 [n; n] = ([n], [n], []) /\ split_shape 1 1 [n; n; n] = ([n], [n], [n]).
Proof. split; reflexivity. Qed.

Theorem items_from_item_rule_addsub k self arg orig swap res self' arg' :
  q_addsub k self arg orig swap = Ok res ->
  onumer self' = onumer self -> odenom self' = odenom self ->
  onumer arg' = onumer arg -> odenom arg' = odenom arg ->
  forall res', q_addsub k self' arg' orig swap = Ok res' ->
  rnumer res' = rnumer res /\ rdenom res' = rdenom res.
Proof.
  intros H Hn Hd Hn' Hd' res' H'.
  apply q_addsub_spec in H. apply q_addsub_spec in H'.
  destruct H as (_ & _ & _ & E1 & E2 & _). destruct H' as (_ & _ & _ & E1' & E2' & _).
  rewrite E1, E2, E1', E2'. split; congruence.
Qed.

Theorem items_from_item_rule_scale k o self arg xl res self' arg' :
  by_scalar k o self arg xl = Ok res ->
  onumer self' = onumer self -> odenom self' = odenom self -> odenom arg' = odenom arg ->
  forall res', by_scalar k o self' arg' xl = Ok res' ->
  rnumer res' = rnumer res /\ rdenom res' = rdenom res.
Proof.
  intros H Hn Hd Hd' res' H'.
  apply by_scalar_spec in H. apply by_scalar_spec in H'.
  destruct H as (_ & _ & _ & E1 & E2 & _). destruct H' as (_ & _ & _ & E1' & E2' & _).
  rewrite E1, E2, E1', E2', Hn, Hd, Hd'. split; reflexivity.
Qed.

(* ------------------------------------------------------------------ *)
(* U: broadcasting of shapes                                            *)
(* ------------------------------------------------------------------ *)
Definition bax (x y : nat) : option nat :=
  if x =? y then Some x else if x =? 1 then Some y else if y =? 1 then Some x else None.

Lemma bshape_rev_cons x a y b :
  bshape_rev (x :: a) (y :: b) =
  match bshape_rev a b with
  | None => None
  | Some r => match bax x y with Some z => Some (z :: r) | None => None end
  end.
Proof.
  simpl. destruct (bshape_rev a b); auto. unfold bax.
  destruct (x =? y); auto. destruct (x =? 1); auto. destruct (y =? 1); auto.
Qed.

Lemma bax_comm x y : bax x y = bax y x.
Proof.
  unfold bax. destruct (Nat.eqb_spec x y), (Nat.eqb_spec y x), (Nat.eqb_spec x 1),
    (Nat.eqb_spec y 1); subst; try congruence; try lia.
Qed.

Lemma bshape_rev_nil_r a : bshape_rev a [] = Some a.
Proof. destruct a; reflexivity. Qed.

Lemma bshape_rev_comm a : forall b, bshape_rev a b = bshape_rev b a.
Proof.
  induction a as [|x a IH]; intros [|y b]; try reflexivity.
  rewrite !bshape_rev_cons, IH, bax_comm. reflexivity.
Qed.

Lemma bshape_comm a b : bshape a b = bshape b a.
Proof. unfold bshape. rewrite bshape_rev_comm. reflexivity. Qed.

Lemma bshape_nil_l a : bshape [] a = Some a.
Proof. unfold bshape. simpl. rewrite rev_involutive. reflexivity. Qed.
Lemma bshape_nil_r a : bshape a [] = Some a.
Proof. rewrite bshape_comm. apply bshape_nil_l. Qed.

Lemma bax_idem x : bax x x = Some x.
Proof. unfold bax. rewrite Nat.eqb_refl. reflexivity. Qed.
Lemma bshape_rev_idem a : bshape_rev a a = Some a.
Proof.
  induction a as [|x a IH]; auto. rewrite bshape_rev_cons, IH, bax_idem. reflexivity.
Qed.
Lemma bshape_idem a : bshape a a = Some a.
Proof. unfold bshape. rewrite bshape_rev_idem. simpl. rewrite rev_involutive. reflexivity. Qed.

Definition obind {A B} (o : option A) (f : A -> option B) : option B :=
  match o with Some x => f x | None => None end.

Ltac eqb_cases :=
  repeat (match goal with |- context [?a =? ?b] => destruct (Nat.eqb_spec a b); try subst end;
          cbv beta iota).

Lemma bax_assoc x y z :
  obind (bax x y) (fun t => bax t z) = obind (bax y z) (fun t => bax x t).
Proof.
  unfold bax, obind. eqb_cases; try reflexivity; try congruence; try lia.
Qed.

Lemma bshape_rev_assoc a : forall b c,
  obind (bshape_rev a b) (fun t => bshape_rev t c) = obind (bshape_rev b c) (fun t => bshape_rev a t).
Proof.
  induction a as [|x a IH]; intros b c.
  - simpl. destruct (bshape_rev b c); reflexivity.
  - destruct b as [|y b].
    + simpl. reflexivity.
    + destruct c as [|z c].
      * rewrite bshape_rev_nil_r. remember (bshape_rev (x :: a) (y :: b)) as w eqn:Ew.
        unfold obind. destruct w as [l|]; rewrite <- Ew; [apply bshape_rev_nil_r | reflexivity].
      * rewrite !bshape_rev_cons. specialize (IH b c).
        pose proof (bax_assoc x y z) as HA.
        destruct (bshape_rev a b) as [rab|] eqn:Eab; destruct (bshape_rev b c) as [rbc|] eqn:Ebc;
          destruct (bax x y) as [xy|] eqn:Exy; destruct (bax y z) as [yz|] eqn:Eyz;
          cbn [obind] in IH, HA |- *; rewrite ?bshape_rev_cons; try reflexivity.
        -- rewrite IH, HA. reflexivity.
        -- rewrite IH, HA. destruct (bshape_rev a rbc); reflexivity.
        -- rewrite <- IH, <- HA. destruct (bshape_rev rab c); reflexivity.
        -- rewrite IH. reflexivity.
        -- rewrite IH. reflexivity.
        -- rewrite <- IH. reflexivity.
        -- rewrite <- IH. reflexivity.
Qed.

Lemma bshape_assoc a b c :
  obind (bshape a b) (fun t => bshape t c) = obind (bshape b c) (fun t => bshape a t).
Proof.
  unfold bshape. pose proof (bshape_rev_assoc (rev a) (rev b) (rev c)) as H.
  destruct (bshape_rev (rev a) (rev b)) as [r1|]; destruct (bshape_rev (rev b) (rev c)) as [r2|];
    cbn [obind option_map] in H |- *; rewrite ?rev_involutive.
  - rewrite H. reflexivity.
  - rewrite H. reflexivity.
  - rewrite <- H. reflexivity.
  - reflexivity.
Qed.

(* rejection exactly when some aligned axis pair is incompatible *)
Lemma bax_none x y : bax x y = None <-> (x <> y /\ x <> 1 /\ y <> 1).
Proof.
  unfold bax. destruct (Nat.eqb_spec x y), (Nat.eqb_spec x 1), (Nat.eqb_spec y 1); subst;
    split; intro H; try discriminate; try (destruct H as (?&?&?); congruence); auto.
Qed.

Lemma bshape_rev_none a : forall b,
  bshape_rev a b = None <->
  exists i x y, nth_error a i = Some x /\ nth_error b i = Some y /\ x <> y /\ x <> 1 /\ y <> 1.
Proof.
  induction a as [|x a IH]; intros b.
  - simpl. split; [discriminate|]. intros (i & x & y & H & _). destruct i; discriminate.
  - destruct b as [|y b].
    + simpl. split; [discriminate|]. intros (i & x' & y' & _ & H & _). destruct i; discriminate.
    + rewrite bshape_rev_cons. split.
      * intro H. destruct (bshape_rev a b) eqn:E.
        -- destruct (bax x y) eqn:EB; [discriminate|]. apply bax_none in EB.
           exists 0, x, y. simpl. tauto.
        -- apply IH in E. destruct E as (i & x' & y' & H1 & H2 & H3).
           exists (S i), x', y'. simpl. tauto.
      * intros (i & x' & y' & H1 & H2 & H3). destruct i as [|i]; simpl in H1, H2.
        -- inversion H1; inversion H2; subst. apply bax_none in H3. rewrite H3.
           destruct (bshape_rev a b); reflexivity.
        -- assert (E : bshape_rev a b = None) by (apply IH; exists i, x', y'; tauto).
           rewrite E. reflexivity.
Qed.

Theorem bshape_none a b :
  bshape a b = None <->
  exists i x y, nth_error (rev a) i = Some x /\ nth_error (rev b) i = Some y
                /\ x <> y /\ x <> 1 /\ y <> 1.
Proof.
  unfold bshape. rewrite <- bshape_rev_none.
  destruct (bshape_rev (rev a) (rev b)); cbn [option_map]; split; intro H;
    try discriminate; reflexivity.
Qed.

(* the loop of Qube.broadcasted_shape is NumPy's rule *)
Lemma upd_bax n s : forall (r : list nat),
  (if n =? 1 then Some (s :: r) else if s =? 1 then Some (n :: r)
   else if s =? n then Some (n :: r) else None)
  = match bax n s with Some z => Some (z :: r) | None => None end.
Proof.
  intro r. unfold bax.
  destruct (Nat.eqb_spec n 1), (Nat.eqb_spec s 1), (Nat.eqb_spec s n), (Nat.eqb_spec n s);
    subst; try reflexivity; try congruence; try lia.
Qed.

Lemma bshape_rev_snoc p : forall (q : list nat) u v, length p = length q ->
  bshape_rev (p ++ [u]) (q ++ [v]) =
  match bshape_rev p q with
  | None => None
  | Some r => match bax u v with Some z => Some (r ++ [z]) | None => None end
  end.
Proof.
  induction p as [|pu p IHp]; intros [|qv q] u v Hpq; simpl in Hpq; try discriminate.
  - simpl. unfold bax. destruct (u =? v); auto. destruct (u =? 1); auto. destruct (v =? 1); auto.
  - injection Hpq as Hpq. rewrite <- !app_comm_cons, !bshape_rev_cons, (IHp q u v Hpq).
    destruct (bshape_rev p q); auto. destruct (bax u v); destruct (bax pu qv); auto.
Qed.

Lemma upd_axiswise a : forall b, length a = length b ->
  bshape_rev (rev a) (rev b) = option_map (@rev nat) (upd a b).
Proof.
  induction a as [|x a IH]; intros [|y b] Hl; simpl in Hl; try discriminate.
  - reflexivity.
  - injection Hl as Hl. specialize (IH b Hl).
    simpl rev. rewrite bshape_rev_snoc by (rewrite !rev_length; exact Hl). rewrite IH.
    simpl upd. destruct (upd a b) as [r|]; cbn [option_map]; auto.
    rewrite upd_bax. destruct (bax x y); simpl; auto.
Qed.

Lemma upd_same_len a b : length a = length b ->
  upd a b = option_map (@rev nat) (bshape_rev (rev a) (rev b)).
Proof.
  intro Hl. rewrite (upd_axiswise a b Hl). destruct (upd a b); simpl; auto.
  rewrite rev_involutive. reflexivity.
Qed.

Lemma bax_one_l y : bax 1 y = Some y.
Proof. unfold bax. destruct (Nat.eqb_spec 1 y); subst; reflexivity. Qed.

Lemma bshape_rev_ones b : bshape_rev (repeat 1 (length b)) b = Some b.
Proof.
  induction b as [|y b IH]; [reflexivity|].
  cbn [length repeat]. rewrite bshape_rev_cons, IH, bax_one_l. reflexivity.
Qed.

Lemma bshape_rev_pad_r a : forall b k, length b = length a + k ->
  bshape_rev (a ++ repeat 1 k) b = bshape_rev a b.
Proof.
  induction a as [|x a IH]; intros b k Hl.
  - simpl in Hl. subst k. cbn [app]. rewrite bshape_rev_ones. reflexivity.
  - destruct b as [|y b]; [simpl in Hl; discriminate|]. simpl in Hl. injection Hl as Hl.
    rewrite <- app_comm_cons, !bshape_rev_cons, (IH b k Hl). reflexivity.
Qed.

Theorem bstep_is_bshape a b : bstep a b = bshape a b.
Proof.
  unfold bstep, bshape, pad.
  rewrite upd_same_len.
  2:{ rewrite !app_length, !repeat_length. lia. }
  f_equal. rewrite !rev_app_distr.
  assert (R1 : forall k, rev (repeat 1 k) = repeat 1 k).
  { induction k as [|k IHk]; auto. simpl. rewrite IHk.
    clear. induction k as [|k IHk]; auto. simpl. rewrite IHk. reflexivity. }
  rewrite !R1.
  destruct (Nat.le_ge_cases (length a) (length b)) as [Hle|Hge].
  - replace (Nat.max (length a) (length b) - length b) with 0 by lia. simpl. rewrite app_nil_r.
    apply bshape_rev_pad_r. rewrite !rev_length. lia.
  - replace (Nat.max (length a) (length b) - length a) with 0 by lia. simpl. rewrite app_nil_r.
    rewrite bshape_rev_comm, bshape_rev_pad_r by (rewrite !rev_length; lia).
    apply bshape_rev_comm.
Qed.

Theorem broadcasted_shape_spec l : broadcasted_shape l = bshape_fold l.
Proof.
  unfold broadcasted_shape, bshape_fold. generalize (Some (@nil nat)) as acc.
  induction l as [|s l IH]; intro acc; simpl; auto.
  rewrite IH. f_equal. destruct acc; auto. apply bstep_is_bshape.
Qed.

(* ------------------------------------------------------------------ *)
(* B: the dispatch tables (finite enumeration, vm_compute)              *)
(* ------------------------------------------------------------------ *)
Definition QCLS := [CScalar; CBoolean; CVector; CVector3; CPair; CMatrix; CMatrix3; CQuaternion].
Definition numers_of (c : cls) : list shape :=
  match c with
  | CScalar | CBoolean => [[]] | CVector => [[3]; [2]] | CVector3 => [[3]] | CPair => [[2]]
  | CMatrix => [[2; 2]; [3; 3]; [2; 3]] | CMatrix3 => [[3; 3]] | CQuaternion => [[4]]
  | CQube => []
  end.
Definition kinds_of (c : cls) : list kind :=
  match c with
  | CBoolean => [KBool] | CScalar | CVector | CPair => [KInt; KFloat] | _ => [KFloat]
  end.
Definition LEADS : list shape := [[]; [3]; [2; 3]; [2]].
Definition DENOMS : list shape := [[]; [2]; [3]].
Definition UNITS (c : cls) : list (option unit3) :=
  if units_ok c then [None; Some (1, 0, 0)%Z; Some (0, 1, 0)%Z] else [None].
(* data that identify their position: element at flat index i is (i mod 5) - 1 *)
Definition posval (s : shape) (i : mi) : Z := (Z.of_nat (ravel s i) mod 5 - 1)%Z.

Definition enum_q : list operand :=
  flat_map (fun c =>
  flat_map (fun k =>
  flat_map (fun n =>
  flat_map (fun L =>
  flat_map (fun d =>
  map (fun u => mkop FQ c k L n (if cls_eqb c CBoolean then [] else d)
                     (posval (L ++ n ++ (if cls_eqb c CBoolean then [] else d))) u)
      (UNITS c)) DENOMS) LEADS) (numers_of c)) (kinds_of c)) QCLS.

Definition enum_nonq : list operand :=
  flat_map (fun f =>
  flat_map (fun k =>
  map (fun s => mkop f CScalar k s [] [] (posval s) None)
      (match f with FNum => [[]] | _ => [[3]; [2; 3]; [2]; [3; 3]; [2; 2]; [4]; [2; 3; 3]] end))
      [KBool; KInt; KFloat]) [FNum; FArr; FMa; FList].

Definition OPS := [OAdd; OSub; OMul; ODiv; OFloor; OMod; OPow].
Definition TAB0 : ktab := [].

Definition is_ok (o : outcome) : bool := match o with Ok _ => true | Err _ => false end.
Definition ok_and (o : outcome) (p : result -> bool) : bool :=
  match o with Ok r => p r | Err _ => true end.

Definition lead_compat (a b : operand) : bool :=
  match bshape (olead a) (olead b) with Some _ => true | None => false end.

(* the rejection rules of the property, stated independently of the ladders *)
Definition must_reject (o : opn) (a b : operand) : bool :=
  let a' := as_int a in let b' := as_int b in
  (* leading shapes that do not broadcast; a rotation applied to / removed from a scalar
     hands the scalar back untouched, so nothing is broadcast there *)
  negb (lead_compat a b)
  && negb (cls_eqb (ocls a') CMatrix3 && Nat.eqb (nrank b') 0 &&
           match o with OMul => true | _ => false end)
  && negb (cls_eqb (ocls b') CMatrix3 && Nat.eqb (nrank a') 0 &&
           match o with ODiv => true | _ => false end)
  || match o with
     | OAdd | OSub => negb (units_match (ounit a') (ounit b'))
                      || negb (shape_eqb (onumer a') (onumer b'))
                      || negb (shape_eqb (odenom a') (odenom b'))
     | OMul => (nonempty (odenom a') && nonempty (odenom b')
                && negb (cls_eqb (ocls a') CMatrix3 && Nat.eqb (nrank b') 0))
               || (negb (Nat.eqb (nrank a') 0) && negb (Nat.eqb (nrank b') 0)
                   && negb (Nat.eqb (nrank a') 2)
                   && negb (cls_eqb (ocls a') CQuaternion)
                   && negb (cls_eqb (ocls a') CVector && cls_eqb (ocls b') CQuaternion))
     | ODiv => nonempty (odenom b')
               || (negb (Nat.eqb (nrank b') 0) && negb (Nat.eqb (nrank a') 0)
                   && negb (Nat.eqb (nrank a') 2) && negb (cls_eqb (ocls a') CQuaternion))
     | OFloor | OMod => nonempty (odenom b') || negb (Nat.eqb (nrank b') 0)
                        || Nat.eqb (nrank a') 2
     | OPow => negb (Nat.eqb (nrank b') 0) || nonempty (odenom b')
     end.

Definition reject_ok (o : opn) (a b : operand) : bool :=
  negb (must_reject o a b) || negb (is_ok (binop TAB0 o a b)).

Definition float_only (c : cls) : bool :=
  match c with CVector3 | CMatrix | CMatrix3 | CQuaternion => true | _ => false end.

(* kind and class rules *)
Definition kind_class_ok (o : opn) (a b : operand) : bool :=
  let a' := as_int a in let b' := as_int b in
  ok_and (binop TAB0 o a b) (fun r =>
    (* float-only classes hold floats; nothing arithmetic is boolean except the
       scalar handed back by Matrix3 * scalar *)
    (negb (float_only (rcls r)) || kind_eqb (rkind r) KFloat)
    && (negb (kind_eqb (rkind r) KBool) || (cls_eqb (ocls a) CMatrix3 && cls_eqb (ocls b) CBoolean))
    (* int op int stays int except true division (and negative powers) *)
    && (negb (kind_eqb (okind a') KInt && kind_eqb (okind b') KInt
              && negb (float_only (rcls r)))
        || match o with
           | ODiv => kind_eqb (rkind r) KFloat
           | OPow => true
           | _ => kind_eqb (rkind r) KInt
           end)
    (* true division yields floats *)
    && (match o with ODiv => kind_eqb (rkind r) KFloat || cls_eqb (ocls b') CMatrix3 | _ => true end)
    (* + - keep the class of the left operand; X op scalar keeps X *)
    && (match o with
        | OAdd | OSub => cls_eqb (rcls r) (ocls a')
        | OMul => if Nat.eqb (nrank b') 0
                  then (if cls_eqb (ocls a') CMatrix3 then cls_eqb (rcls r) (ocls b)
                        else cls_eqb (rcls r) (ocls a'))
                  else if Nat.eqb (nrank a') 0 then cls_eqb (rcls r) (ocls b')
                  else if Nat.eqb (nrank a') 2 && Nat.eqb (nrank b') 1 && suitable (ocls b') (rnumer r)
                  then cls_eqb (rcls r) (ocls b')         (* a matrix applied to an X gives an X *)
                  else true
        | ODiv | OFloor | OMod => if Nat.eqb (nrank b') 0 then cls_eqb (rcls r) (ocls a') else true
        | OPow => true
        end)).

Definition table_pairs : list (operand * operand) := list_prod enum_q enum_q.

Lemma reject_table_compute :
  forallb (fun o => forallb (fun p => reject_ok o (fst p) (snd p)) table_pairs) OPS = true.
Proof. vm_compute. reflexivity. Qed.

Lemma kind_class_table_compute :
  forallb (fun o => forallb (fun p => kind_class_ok o (fst p) (snd p)) table_pairs) OPS = true.
Proof. vm_compute. reflexivity. Qed.

Theorem reject_table : forall o a b, In o OPS -> In a enum_q -> In b enum_q ->
  must_reject o a b = true -> exists e, binop TAB0 o a b = Err e.
Proof.
  intros o a b Ho Ha Hb HR.
  pose proof reject_table_compute as H. rewrite forallb_forall in H. specialize (H o Ho).
  rewrite forallb_forall in H. specialize (H (a, b)).
  assert (Hin : In (a, b) table_pairs) by (apply in_prod; assumption).
  specialize (H Hin). unfold reject_ok in H. simpl in H. rewrite HR in H. simpl in H.
  destruct (binop TAB0 o a b) as [r|e]; [discriminate|]. exists e. reflexivity.
Qed.

Theorem kind_class_table : forall o a b, In o OPS -> In a enum_q -> In b enum_q ->
  kind_class_ok o a b = true.
Proof.
  intros o a b Ho Ha Hb.
  pose proof kind_class_table_compute as H. rewrite forallb_forall in H. specialize (H o Ho).
  rewrite forallb_forall in H. apply (H (a, b)). apply in_prod; assumption.
Qed.

(* reflected and mixed forms agree with the direct form whenever both are accepted *)
Definition direct_form (o : opn) (q m : operand) : option operand :=
  match o with
  | OAdd | OSub => as_this (as_int q) m
  | _ => Some (as_scalar m)
  end.

Definition res_agree (r1 r2 : result) : bool :=
  cls_eqb (rcls r1) (rcls r2) && kind_eqb (rkind r1) (rkind r2) &&
  shape_eqb (rlead r1) (rlead r2) && shape_eqb (rnumer r1) (rnumer r2) &&
  shape_eqb (rdenom r1) (rdenom r2) &&
  match rget r1, rget r2 with
  | Some g1, Some g2 => forallb (fun i => val_eqb (g1 i) (g2 i))
                                (all_mi (rlead r1 ++ rnumer r1 ++ rdenom r1))
  | _, _ => true
  end.

Definition both_agree (x y : outcome) : bool :=
  match x, y with Ok r1, Ok r2 => res_agree r1 r2 | _, _ => true end.

(* number zero on the right of / and % leaves an all-masked object of the operand's
   kind (no value is stated), which is the recorded finding; excluded here *)
Definition zero_number (m : operand) : bool := is_num m && Z.eqb (oget m []) 0.

Definition reflected_ok (o : opn) (q m : operand) : bool :=
  match direct_form o q m with
  | None => true
  | Some d =>
      (zero_number m || both_agree (binop TAB0 o q m) (binop TAB0 o q d))
      && both_agree (binop TAB0 o m q) (binop TAB0 o d q)
  end.

(* units play no part in the conversion of a non-polymath operand: the unit-less
   polymath operands are enumerated here *)
Definition enum_q0 : list operand := filter (fun a => negb (some_unit (ounit a))) enum_q.
Definition mixed_pairs : list (operand * operand) := list_prod enum_q0 enum_nonq.

Lemma reflected_compute :
  forallb (fun o => forallb (fun p => reflected_ok o (fst p) (snd p)) mixed_pairs) OPS = true.
Proof. vm_compute. reflexivity. Qed.

Theorem reflected_agrees : forall o q m, In o OPS -> In q enum_q0 -> In m enum_nonq ->
  reflected_ok o q m = true.
Proof.
  intros o q m Ho Hq Hm.
  pose proof reflected_compute as H. rewrite forallb_forall in H. specialize (H o Ho).
  rewrite forallb_forall in H. apply (H (q, m)). apply in_prod; assumption.
Qed.

Lemma enum_sizes : length enum_q = 468 /\ length enum_nonq = 66 /\ length enum_q0 = 180.
Proof. vm_compute. repeat split; reflexivity. Qed.
