(* C11 - the lossy 'scaled' float codec of pickler._encode_one_float_array /
   _decode_scaled_uints over the real numbers: the integer code fits the chosen number of
   bytes, decoding lands within half a code step, and the byte count chosen from
   unique_values_needed makes that half step at most half the precision asked for. *)
From Coq Require Import Reals ZArith Lra Lia Psatz.
From PM Require Import C11Model C11Lemmas.
Local Open Scope R_scope.

Definition W (n : nat) : R := 256 ^ n.
(* scale_factor = 256.**nbytes / span * (1 - eps) *)
Definition sfac (n : nat) (span eps : R) : R := W n / span * (1 - eps).
(* new_values = scale_factor * (raveled - minval); .astype(uint..) truncates (values >= 0) *)
Definition enc_scaled (n : nat) (mn span eps v : R) : Z := Int_part (sfac n span eps * (v - mn)).
(* decoded = (1/scale_factor) * ints + (minval + 0.5/scale_factor) *)
Definition dec_scaled (n : nat) (mn span eps : R) (k : Z) : R :=
  / sfac n span eps * IZR k + (mn + /2 * / sfac n span eps).

Lemma W_pos n : 0 < W n.
Proof. unfold W. apply pow_lt. lra. Qed.

Lemma W_IZR n : W n = IZR (B n).
Proof. unfold W, B. rewrite <- pow_IZR. reflexivity. Qed.

Lemma sfac_pos n span eps : 0 < span -> 0 <= eps < 1 -> 0 < sfac n span eps.
Proof.
  intros Hs He. unfold sfac. apply Rmult_lt_0_compat; [|lra].
  apply Rdiv_lt_0_compat; [apply W_pos|exact Hs].
Qed.

Lemma scaled_arg_range n mn span eps v : 0 < span -> 0 < eps < 1 -> mn <= v <= mn + span ->
  0 <= sfac n span eps * (v - mn) < W n.
Proof.
  intros Hs He Hv. pose proof (W_pos n) as HW.
  assert (Hsf : 0 < sfac n span eps) by (apply sfac_pos; lra).
  split; [apply Rmult_le_pos; lra|].
  apply Rle_lt_trans with (sfac n span eps * span).
  - apply Rmult_le_compat_l; lra.
  - unfold sfac. replace (W n / span * (1 - eps) * span) with (W n * (1 - eps)) by (field; lra).
    nra.
Qed.

Lemma scaled_code_range n mn span eps v : 0 < span -> 0 < eps < 1 -> mn <= v <= mn + span ->
  (0 <= enc_scaled n mn span eps v < B n)%Z.
Proof.
  intros Hs He Hv. destruct (scaled_arg_range n mn span eps v Hs He Hv) as [H0 H1].
  unfold enc_scaled. set (x := sfac n span eps * (v - mn)) in *.
  destruct (base_Int_part x) as [Hle Hgt]. split.
  - assert (IZR (-1) < IZR (Int_part x)) by (simpl; lra).
    apply lt_IZR in H. lia.
  - apply lt_IZR. rewrite <- W_IZR. lra.
Qed.

Lemma scaled_error n mn span eps v : 0 < span -> 0 < eps < 1 ->
  Rabs (dec_scaled n mn span eps (enc_scaled n mn span eps v) - v) <= /2 * / sfac n span eps.
Proof.
  intros Hs He. assert (Hsf : 0 < sfac n span eps) by (apply sfac_pos; lra).
  unfold dec_scaled, enc_scaled. set (s := sfac n span eps) in *.
  set (x := s * (v - mn)). destruct (base_Int_part x) as [Hle Hgt].
  set (k := IZR (Int_part x)) in *.
  assert (Hv : v = mn + / s * x) by (unfold x; field; lra).
  assert (Hi : 0 < / s) by (apply Rinv_0_lt_compat; exact Hsf).
  rewrite Hv at 1.
  replace (/ s * k + (mn + / 2 * / s) - (mn + / s * x)) with (/ s * (k - x + /2)) by (field; lra).
  rewrite Rabs_mult, (Rabs_pos_eq (/ s)) by lra.
  rewrite (Rmult_comm (/2)). apply Rmult_le_compat_l; [lra|].
  apply Rabs_le. lra.
Qed.

(* nbytes is chosen with 256**nbytes >= unique_values_needed = span / precision + 1 *)
Lemma scaled_half_step n span eps prec : 0 < span -> 0 < eps < 1 -> 0 < prec ->
  span / prec + 1 <= W n -> eps * (span / prec + 1) <= 1 ->
  /2 * / sfac n span eps <= /2 * prec.
Proof.
  intros Hs He Hp HW Heps. assert (Hsf : 0 < sfac n span eps) by (apply sfac_pos; lra).
  apply Rmult_le_compat_l; [lra|].
  apply Rmult_le_reg_l with (sfac n span eps); [exact Hsf|].
  rewrite Rinv_r by lra. unfold sfac.
  assert (H1 : span + prec <= prec * W n).
  { apply Rmult_le_compat_l with (r := prec) in HW; [|lra].
    replace (prec * (span / prec + 1)) with (span + prec) in HW by (field; lra). exact HW. }
  assert (H2 : eps * (span + prec) <= prec).
  { apply Rmult_le_compat_l with (r := prec) in Heps; [|lra].
    replace (prec * (eps * (span / prec + 1))) with (eps * (span + prec)) in Heps by (field; lra). lra. }
  replace (W n / span * (1 - eps) * prec) with ((prec * W n) * (1 - eps) / span) by (field; lra).
  apply Rmult_le_reg_r with span; [exact Hs|].
  replace (prec * W n * (1 - eps) / span * span) with (prec * W n * (1 - eps)) by (field; lra).
  nra.
Qed.

Lemma scaled_eps_ok n span eps prec : (n <= 6)%nat -> 0 < span -> 0 < prec ->
  0 < eps <= / W 6 -> span / prec + 1 <= W n -> eps * (span / prec + 1) <= 1.
Proof.
  intros Hn Hs Hp He HW.
  assert (HU : 0 < span / prec + 1).
  { assert (0 < span / prec) by (apply Rdiv_lt_0_compat; lra). lra. }
  assert (H6 : W n <= W 6) by (unfold W; apply Rle_pow; [lra|exact Hn]).
  pose proof (W_pos 6) as HW6.
  apply Rle_trans with (/ W 6 * W 6); [|rewrite Rinv_l; lra].
  apply Rmult_le_compat; lra.
Qed.

(* the whole path: nbytes <= 6 bytes chosen from the precision, eps = float epsilon *)
Lemma scaled_roundtrip n mn span eps prec v : (n <= 6)%nat -> 0 < span -> 0 < prec ->
  0 < eps <= / W 6 -> span / prec + 1 <= W n -> mn <= v <= mn + span ->
  let k := enc_scaled n mn span eps v in
  (0 <= k < B n)%Z /\ le_val (le_bytes n k) = k /\
  Rabs (dec_scaled n mn span eps k - v) <= /2 * prec.
Proof.
  intros Hn Hs Hp He HW Hv k.
  assert (He1 : 0 < eps < 1).
  { split; [lra|]. apply Rle_lt_trans with (/ W 6); [lra|].
    unfold W. simpl. apply Rlt_le_trans with (/ 1); [|rewrite Rinv_1; lra].
    apply Rinv_lt_contravar; lra. }
  assert (Hk : (0 <= k < B n)%Z) by (apply scaled_code_range; assumption).
  split; [exact Hk|]. split.
  - rewrite le_val_le_bytes by lia. apply Z.mod_small. exact Hk.
  - eapply Rle_trans; [apply scaled_error; assumption|].
    apply scaled_half_step; try assumption.
    apply scaled_eps_ok with (n := n); assumption.
Qed.

(* nbytes = ceil(ln U / ln 256): any n at least ln U / ln 256 makes 256^n >= U *)
Lemma scaled_nbytes_ok (n : nat) (U : R) : 0 < U -> ln U / ln 256 <= INR n -> U <= W n.
Proof.
  intros HU Hn. unfold W.
  assert (H256 : 0 < ln 256) by (rewrite <- ln_1; apply ln_increasing; lra).
  rewrite <- (Rpower_pow n 256) by lra. unfold Rpower.
  rewrite <- (exp_ln U HU) at 1.
  assert (Hle : ln U <= INR n * ln 256).
  { apply Rmult_le_compat_r with (r := ln 256) in Hn; [|lra].
    unfold Rdiv in Hn. rewrite Rmult_assoc, Rinv_l, Rmult_1_r in Hn by lra. exact Hn. }
  destruct (Rle_lt_or_eq_dec _ _ Hle) as [Hlt|Heq].
  - left. apply exp_increasing. exact Hlt.
  - right. rewrite Heq. reflexivity.
Qed.

Lemma ex_scaled_premises : (2 <= 6)%nat /\ 0 < 1 /\ 0 < /1000 /\ 0 < / W 6 <= / W 6 /\
  1 / (/1000) + 1 <= W 2 /\ 0 <= /2 <= 0 + 1.
Proof.
  pose proof (W_pos 6) as H6. assert (0 < / W 6) by (apply Rinv_0_lt_compat; exact H6).
  repeat split; try lia; try lra. unfold W. simpl. lra.
Qed.
