(* C09 model (shared with C10): the SPECIFICATION of polymath indexing, written
   from the class documentation of qube.py ("Notes about indexing") in the style
   of harness/ref_index.py: every index entry becomes a piece; array entries are
   broadcast together and their axes stand where the first array entry stood.
   [ref_getitem] gives the result shape and, for every result multi-index, the
   source multi-index it reads, or None when the index entry that selected it is
   masked or out of range. Proof-free. Also: an independent per-axis definition
   of NumPy basic indexing ([npb]) and an independent definition of NumPy
   advanced indexing followed by relocation ([np_getitem]) used by the theorems. *)
From Coq Require Import List Arith ZArith Bool Lia.
From PM Require Import Base Mask.
Import ListNotations.

(* ------------------------------------------------------------------------- *)
(* index entries                                                              *)
(* ------------------------------------------------------------------------- *)
Inductive entry :=
| EInt (v : Z) (m : bool)                       (* Python int / shapeless Scalar (m = masked) *)
| ESlice (a b c : option Z)                     (* slice(a, b, c) *)
| ENone | EEll
| EBool (v m : bool)                            (* True / False / shapeless Boolean *)
| EIArr (s : shape) (v : list Z) (m : list bool)      (* int ndarray / Scalar; m = [] : no mask *)
| EBArr (s : shape) (v : list bool) (m : list bool)   (* bool ndarray / Boolean *)
| EVec (n : nat) (s : shape) (v : list Z) (m : list bool)  (* Pair / Vector, last axis n *)
| EBad.                                         (* float, string, ...: never valid *)

(* Python's slice.indices + range: the positions a slice selects on an axis of length n *)
Definition zclamp (lo hi x : Z) : Z := Z.max lo (Z.min hi x).
Definition znorm (n x : Z) : Z := if (x <? 0)%Z then (x + n)%Z else x.
Definition slice_list (n : nat) (a b c : option Z) : list nat :=
  let nz := Z.of_nat n in
  let step := match c with Some s => s | None => 1%Z end in
  if (0 <? step)%Z then
    let lo := match a with Some x => zclamp 0 nz (znorm nz x) | None => 0%Z end in
    let hi := match b with Some x => zclamp 0 nz (znorm nz x) | None => nz end in
    let cnt := if (hi <=? lo)%Z then 0%Z else ((hi - lo + step - 1) / step)%Z in
    map (fun k => Z.to_nat (lo + Z.of_nat k * step)) (seq 0 (Z.to_nat cnt))
  else
    let st := (- step)%Z in
    let lo := match a with Some x => zclamp (-1) (nz - 1) (znorm nz x) | None => (nz - 1)%Z end in
    let hi := match b with Some x => zclamp (-1) (nz - 1) (znorm nz x) | None => (-1)%Z end in
    let cnt := if (lo <=? hi)%Z then 0%Z else ((lo - hi + st - 1) / st)%Z in
    map (fun k => Z.to_nat (lo - Z.of_nat k * st)) (seq 0 (Z.to_nat cnt)).

(* an integer on an axis of length n: None when masked or out of range *)
Definition int_pos (n : nat) (v : Z) (m : bool) : option nat :=
  let nz := Z.of_nat n in
  if m || (nz <=? v)%Z || (v <? - nz)%Z then None else Some (Z.to_nat (v mod nz)).

(* ------------------------------------------------------------------------- *)
(* pieces                                                                     *)
(* ------------------------------------------------------------------------- *)
Inductive piece :=
| PAxis (pos : list nat)        (* one result axis reading one source axis at these positions *)
| PNew (n : nat)                (* new result axis of length n, no source axis *)
| PMasked                       (* masked single boolean: unit result axis, one source axis, all masked *)
| PFixed (p : option nat)       (* integer: no result axis, one source axis; None = masked *)
| PArr (s : shape) (items : list (option (list nat))).
                                (* array entry of shape s; item = source coordinates, None = masked *)

Definition ocons (x : option nat) (r : option mi) : option mi :=
  match x, r with Some k, Some l => Some (k :: l) | _, _ => None end.
Definition oapp (x : option (list nat)) (r : option mi) : option mi :=
  match x, r with Some k, Some l => Some (k ++ l) | _, _ => None end.

(* Pair / Vector entries are n integer entries (shapeless) or n array entries *)
Definition column (n j : nat) (v : list Z) (cnt : nat) : list Z :=
  map (fun i => nth (i * n + j) v 0%Z) (seq 0 cnt).
Definition expand1 (e : entry) : list entry :=
  match e with
  | EVec n [] v m => map (fun j => EInt (nth j v 0%Z) (nth 0 m false)) (seq 0 n)
  | EVec n s v m => map (fun j => EIArr s (column n j v (size s)) (match j with 0 => m | _ => [] end)) (seq 0 n)
  | _ => [e]
  end.
Definition expand (l : list entry) : list entry := flat_map expand1 l.

Definition consumes (e : entry) : nat :=
  match e with ENone | EEll => 0 | EBArr s _ _ => length s | _ => 1 end.
Definition is_ell (e : entry) : bool := match e with EEll => true | _ => false end.
Definition is_bad (e : entry) : bool :=
  match e with EBad => true | ESlice _ _ (Some 0%Z) => true | _ => false end.
Definition used (l : list entry) : nat := fold_right (fun e a => consumes e + a) 0 l.
Definition count_ell (l : list entry) : nat := length (filter is_ell l).

Definition iarr_items (n : nat) (v : list Z) (m : list bool) : list (option (list nat)) :=
  map (fun i => option_map (fun p => [p]) (int_pos n (nth i v 0%Z) (nth i m false))) (seq 0 (length v)).
Definition barr_items (s : shape) (v m : list bool) : list (option (list nat)) :=
  flat_map (fun p => let i := ravel s p in
                     if nth i m false then [None] else if nth i v false then [Some p] else [])
           (all_mi s).

(* entries (after expansion, with exactly one Ellipsis) to pieces; [rest] = source axes left *)
Fixpoint build (fill : nat) (rest : shape) (ents : list entry) : option (list piece) :=
  match ents with
  | [] => Some []
  | e :: t =>
    match e with
    | EEll => option_map (app (map (fun n => PAxis (seq 0 n)) (firstn fill rest)))
                         (build fill (skipn fill rest) t)
    | ENone => option_map (cons (PNew 1)) (build fill rest t)
    | ESlice a b c =>
        match rest with
        | n :: r => option_map (cons (PAxis (slice_list n a b c))) (build fill r t)
        | [] => None
        end
    | EBool v m =>
        match rest with
        | n :: r => option_map (cons (if m then PMasked else if v then PAxis (seq 0 n) else PAxis []))
                               (build fill r t)
        | [] => None
        end
    | EInt v m =>
        match rest with
        | n :: r => option_map (cons (PFixed (int_pos n v m))) (build fill r t)
        | [] => None
        end
    | EIArr s v m =>
        match rest with
        | n :: r => option_map (cons (PArr s (iarr_items n v m))) (build fill r t)
        | [] => None
        end
    | EBArr s v m =>
        if shape_eqb s (firstn (length s) rest) then
          let it := barr_items s v m in
          option_map (cons (PArr [length it] it)) (build fill (skipn (length s) rest) t)
        else None
    | EVec _ _ _ _ | EBad => None
    end
  end.

(* broadcast shape of all array pieces *)
Fixpoint arr_shape (ps : list piece) : option shape :=
  match ps with
  | [] => Some []
  | PArr s _ :: t => match arr_shape t with Some r => bshape s r | None => None end
  | _ :: t => arr_shape t
  end.

(* result shape: the array axes stand where the first array piece stands *)
Fixpoint oshape (ps : list piece) (ash : shape) (seen : bool) : shape :=
  match ps with
  | [] => []
  | PAxis pos :: t => length pos :: oshape t ash seen
  | PNew n :: t => n :: oshape t ash seen
  | PMasked :: t => 1 :: oshape t ash seen
  | PFixed _ :: t => oshape t ash seen
  | PArr _ _ :: t => if seen then oshape t ash true else ash ++ oshape t ash true
  end.

(* source multi-index of result multi-index [o]; [ai] = the array part of o once met *)
Fixpoint walk (ps : list piece) (ash : shape) (o : mi) (ai : option mi) : option mi :=
  match ps with
  | [] => Some []
  | PAxis pos :: t => ocons (Some (nth (hd 0 o) pos 0)) (walk t ash (tl o) ai)
  | PNew _ :: t => walk t ash (tl o) ai
  | PMasked :: t => None
  | PFixed p :: t => ocons p (walk t ash o ai)
  | PArr s items :: t =>
      let a := match ai with Some a => a | None => firstn (length ash) o end in
      let o' := match ai with Some _ => o | None => skipn (length ash) o end in
      oapp (nth (ravel s (bproj s a)) items None) (walk t ash o' (Some a))
  end.

(* shapeless objects: True / False / masked Boolean (at most one), None, Ellipsis, full slice *)
Fixpoint scalar_pieces (ents : list entry) : option (list piece) :=
  match ents with
  | [] => Some []
  | ENone :: t => option_map (cons (PNew 1)) (scalar_pieces t)
  | EEll :: t => scalar_pieces t
  | ESlice None None None :: t => scalar_pieces t
  | EBool v m :: t =>
      option_map (fun r => if m then PFixed None :: r else if v then r else PNew 0 :: r) (scalar_pieces t)
  | _ => None
  end.
Definition is_boole (e : entry) : bool := match e with EBool _ _ => true | _ => false end.

(* the reference: None = IndexError *)
Definition ref_pieces (sh : shape) (ents : list entry) : option (list piece) :=
  match sh with
  | [] => if (1 <? count_ell ents) || (1 <? length (filter is_boole ents)) then None
          else scalar_pieces ents
  | _ =>
    let ex := expand ents in
    if (1 <? count_ell ex) || (length sh <? used ex) || existsb is_bad ex then None
    else build (length sh - used ex) sh (if existsb is_ell ex then ex else ex ++ [EEll])
  end.
Definition ref_getitem (sh : shape) (ents : list entry) : option (shape * (mi -> option mi)) :=
  match ref_pieces sh ents with
  | None => None
  | Some ps =>
      match arr_shape ps with
      | None => None
      | Some ash => Some (oshape ps ash false, fun o => walk ps ash o None)
      end
  end.

(* ------------------------------------------------------------------------- *)
(* objects and getitem                                                        *)
(* ------------------------------------------------------------------------- *)
(* a plain object: leading shape, one value per element (the whole item), mask *)
Record plain (V : Type) := mkpl { psh : shape; pval : mi -> V; pmask : mrep }.
Arguments mkpl {V}. Arguments psh {V}. Arguments pval {V}. Arguments pmask {V}.

(* apply a selection (out_shape, src) to a plain object *)
Definition select {V} (d : V) (p : plain V) (osh : shape) (src : mi -> option mi) : plain V :=
  mkpl osh (fun o => match src o with Some e => pval p e | None => d end)
       (MA (fun o => match src o with Some e => mget (pmask p) e | None => true end)).

(* an object = plain object + derivatives (each a plain object with its own mask) *)
Record obj (V : Type) := mkobj { omain : plain V; oders : list (nat * plain V) }.
Arguments mkobj {V}. Arguments omain {V}. Arguments oders {V}.

Definition getitem {V} (d : V) (q : obj V) (idx : list entry) : option (obj V) :=
  match ref_getitem (psh (omain q)) idx with
  | None => None
  | Some (osh, src) =>
      Some (mkobj (select d (omain q) osh src)
                  (map (fun kp => (fst kp, select d (snd kp) osh src)) (oders q)))
  end.

(* iteration: q[0], q[1], ... ; ndenumerate: q[i] for i row-major; a shapeless object once *)
Definition int_idx (i : mi) : list entry := map (fun k => EInt (Z.of_nat k) false) i.
Definition iter_items {V} (d : V) (q : obj V) : list (option (obj V)) :=
  match psh (omain q) with
  | [] => [Some q]
  | n :: _ => map (fun k => getitem d q [EInt (Z.of_nat k) false]) (seq 0 n)
  end.
Definition enum_items {V} (d : V) (q : obj V) : list (mi * option (obj V)) :=
  match psh (omain q) with
  | [] => [([], Some q)]
  | s => map (fun i => (i, getitem d q (int_idx i))) (all_mi s)
  end.
Definition qlen {V} (q : obj V) : option nat :=
  match psh (omain q) with [] => None | n :: _ => Some n end.

(* ------------------------------------------------------------------------- *)
(* independent definition 1: NumPy basic indexing, per axis, on arrays         *)
(* ------------------------------------------------------------------------- *)
Definition sub {A} (a : arr A) (k : nat) : arr A := mkarr (tl (ashape a)) (fun i => aget a (k :: i)).
Definition stack {A} (n : nat) (f : nat -> arr A) : arr A :=
  mkarr (n :: ashape (f 0)) (fun o => aget (f (hd 0 o)) (tl o)).
(* apply f below the k leading axes *)
Fixpoint under {A} (k : nat) (f : arr A -> arr A) (a : arr A) : arr A :=
  match k with
  | 0 => f a
  | S k' => match ashape a with
            | [] => f a
            | n :: _ => stack n (fun j => under k' f (sub a j))
            end
  end.
Definition wrap_neg (n : nat) (v : Z) : nat := Z.to_nat (if (v <? 0)%Z then (v + Z.of_nat n)%Z else v).
(* a[e1, e2, ...] for ints (in range), slices, None, Ellipsis (= fill full slices), True (= ":"),
   False (= "0:0"), by composition along the leading axis *)
Fixpoint npb {A} (fill : nat) (ents : list entry) (a : arr A) : arr A :=
  match ents with
  | [] => a
  | EInt v _ :: t => npb fill t (sub a (wrap_neg (hd 0 (ashape a)) v))
  | ESlice x y z :: t =>
      let pos := slice_list (hd 0 (ashape a)) x y z in
      stack (length pos) (fun j => npb fill t (sub a (nth j pos 0)))
  | EBool true _ :: t => stack (hd 0 (ashape a)) (fun j => npb fill t (sub a j))
  | EBool false _ :: t => stack 0 (fun j => npb fill t (sub a j))
  | ENone :: t => stack 1 (fun _ => npb fill t a)
  | EEll :: t => under fill (npb fill t) a
  | _ :: t => a
  end.
(* the entries this definition covers *)
Definition basic_ok (e : entry) : bool :=
  match e with
  | EInt _ m => negb m | ESlice _ _ _ | ENone | EEll => true
  | EBool _ m => negb m | _ => false
  end.
(* ... used on an array of shape [rest] with every integer in range and every axis consumed *)
Fixpoint valid_basic (fill : nat) (rest : shape) (ents : list entry) : bool :=
  match ents with
  | [] => match rest with [] => true | _ => false end
  | EEll :: t => valid_basic fill (skipn fill rest) t
  | ENone :: t => valid_basic fill rest t
  | ESlice _ _ _ :: t => match rest with _ :: r => valid_basic fill r t | [] => false end
  | EBool _ m :: t => match rest with _ :: r => negb m && valid_basic fill r t | [] => false end
  | EInt v m :: t =>
      match rest with
      | n :: r => negb m && (- Z.of_nat n <=? v)%Z && (v <? Z.of_nat n)%Z && valid_basic fill r t
      | [] => false
      end
  | _ => false
  end.
Definition with_ell (ents : list entry) : list entry := if existsb is_ell ents then ents else ents ++ [EEll].
Definition np_basic {A} (ents : list entry) (a : arr A) : arr A :=
  npb (length (ashape a) - used ents) (with_ell ents) a.
Definition basic_valid (sh : shape) (ents : list entry) : bool :=
  forallb basic_ok ents && negb (1 <? count_ell ents) && negb (length sh <? used ents)
  && negb (existsb is_bad ents) && valid_basic (length sh - used ents) sh (with_ell ents).

(* ------------------------------------------------------------------------- *)
(* independent definition 2: NumPy advanced indexing, then relocation          *)
(* ------------------------------------------------------------------------- *)
(* NumPy sees, per source axis after Ellipsis expansion, a basic item (slice / None) or an
   advanced item (an integer array of some shape; an integer is a 0-d array; a boolean array
   is replaced by one integer array per axis, its nonzero()). Masked and out-of-range values
   are carried as None (polymath substitutes a valid value and masks the element afterwards). *)
Inductive nitem :=
| NSl (pos : list nat)                          (* slice: positions *)
| NNew (n : nat)                                (* None (n = 1) *)
| NMask                                         (* masked single boolean: "0:1", then everything masked *)
| NAdv (isarr : bool) (s : shape) (vals : list (option nat)) (mk : list bool).
          (* advanced index: values (None = unusable), extra mask flags per element *)

Definition nz_column (s : shape) (v m : list bool) (j : nat) : list (option nat) :=
  flat_map (fun p => let i := ravel s p in
                     if nth i m false || nth i v false then [Some (nth j p 0)] else []) (all_mi s).
Definition nz_mask (s : shape) (v m : list bool) : list bool :=
  flat_map (fun p => let i := ravel s p in
                     if nth i m false then [true] else if nth i v false then [false] else []) (all_mi s).

Fixpoint np_items (fill : nat) (rest : shape) (ents : list entry) : option (list nitem) :=
  match ents with
  | [] => Some []
  | e :: t =>
    match e, rest with
    | EEll, _ => option_map (app (map (fun n => NSl (seq 0 n)) (firstn fill rest)))
                            (np_items fill (skipn fill rest) t)
    | ENone, _ => option_map (cons (NNew 1)) (np_items fill rest t)
    | ESlice a b c, n :: r => option_map (cons (NSl (slice_list n a b c))) (np_items fill r t)
    | EBool v m, n :: r =>
        (* polymath: True = ":", False = "0:0", masked = "0:1" with everything masked *)
        option_map (cons (if m then NMask else if v then NSl (seq 0 n) else NSl [])) (np_items fill r t)
    | EInt v m, n :: r =>
        option_map (cons (NAdv false [] [int_pos n v m] [])) (np_items fill r t)
    | EIArr s v m, n :: r =>
        option_map (cons (NAdv true s (map (fun i => int_pos n (nth i v 0%Z) (nth i m false))
                                           (seq 0 (length v))) []))
                   (np_items fill r t)
    | EBArr s v m, _ =>
        if shape_eqb s (firstn (length s) rest) then
          let cnt := length (nz_mask s v m) in
          option_map (app (map (fun j => NAdv true [cnt] (nz_column s v m j)
                                              (match j with 0 => nz_mask s v m | _ => [] end))
                               (seq 0 (length s))))
                     (np_items fill (skipn (length s) rest) t)
        else None
    | _, _ => None
    end
  end.

Definition is_adv (i : nitem) : bool := match i with NAdv _ _ _ _ => true | _ => false end.
Definition is_arr_item (i : nitem) : bool := match i with NAdv b _ _ _ => b | _ => false end.
Fixpoint adv_bshape (l : list nitem) : option shape :=
  match l with
  | [] => Some []
  | NAdv _ s _ _ :: t => match adv_bshape t with Some r => bshape s r | None => None end
  | _ :: t => adv_bshape t
  end.
(* drop leading / trailing non-advanced items: the advanced ones are adjacent iff what is left
   is all advanced *)
Fixpoint drop_nonadv (l : list nitem) : list nitem :=
  match l with [] => [] | i :: t => if is_adv i then l else drop_nonadv t end.
Definition adjacent (l : list nitem) : bool :=
  forallb is_adv (drop_nonadv (rev (drop_nonadv (rev l)))).
Definition basic_dims (l : list nitem) : shape :=
  flat_map (fun i => match i with NSl pos => [length pos] | NNew n => [n] | NMask => [1] | _ => [] end) l.
Fixpoint before_first (f : nitem -> bool) (l : list nitem) : list nitem :=
  match l with [] => [] | i :: t => if f i then [] else i :: before_first f t end.

(* source index for array part [b] and basic part [o] of a result index; items in source-axis order *)
Fixpoint np_src (l : list nitem) (b : mi) (o : mi) : option mi :=
  match l with
  | [] => Some []
  | NSl pos :: t => ocons (Some (nth (hd 0 o) pos 0)) (np_src t b (tl o))
  | NNew _ :: t => np_src t b (tl o)
  | NMask :: t => None
  | NAdv _ s vals mk :: t =>
      let i := ravel s (bproj s b) in
      ocons (if nth i mk false then None else nth i vals None) (np_src t b o)
  end.

(* np.moveaxis of a block of [len] axes from position [from] to position [to] *)
Definition move_shape (from to len : nat) (s : shape) : shape :=
  let blk := firstn len (skipn from s) in
  let rest := firstn from s ++ skipn (from + len) s in
  firstn to rest ++ blk ++ skipn to rest.
(* index into the moved array -> index into the original *)
Definition unmove (from to len : nat) (o : mi) : mi :=
  let blk := firstn len (skipn to o) in
  let rest := firstn to o ++ skipn (to + len) o in
  firstn from rest ++ blk ++ skipn from rest.

Definition np_getitem (sh : shape) (ents : list entry) : option (shape * (mi -> option mi)) :=
  match sh with
  | [] => None           (* shapeless objects are not NumPy-indexed *)
  | _ =>
    let ex := expand ents in
    if (1 <? count_ell ex) || (length sh <? used ex) || existsb is_bad ex then None
    else
      match np_items (length sh - used ex) sh (if existsb is_ell ex then ex else ex ++ [EEll]) with
      | None => None
      | Some l =>
        match adv_bshape l with
        | None => None
        | Some B =>
          let nb := length B in
          let dims := basic_dims l in
          (* NumPy: the broadcast block stands where the advanced indices stood if they are
             adjacent, else in front *)
          let loc_np := if adjacent l then length (basic_dims (before_first is_adv l)) else 0 in
          let np_shape := firstn loc_np dims ++ B ++ skipn loc_np dims in
          let np_fun := fun r => np_src l (firstn nb (skipn loc_np r))
                                        (firstn loc_np r ++ skipn (loc_np + nb) r) in
          (* relocation: to where the first ARRAY entry stood *)
          let loc_pm := length (basic_dims (before_first is_arr_item l)) in
          if existsb is_arr_item l then
            Some (move_shape loc_np loc_pm nb np_shape, fun o => np_fun (unmove loc_np loc_pm nb o))
          else Some (np_shape, np_fun)
        end
      end
  end.

(* agreement of two selections on every in-bounds result index *)
Definition omi_eqb (a b : option mi) : bool :=
  match a, b with
  | None, None => true
  | Some x, Some y => shape_eqb x y
  | _, _ => false
  end.
Definition sel_agree (x y : option (shape * (mi -> option mi))) : bool :=
  match x, y with
  | None, None => true
  | Some (s1, f1), Some (s2, f2) =>
      shape_eqb s1 s2 && forallb (fun o => omi_eqb (f1 o) (f2 o)) (all_mi s1)
  | _, _ => false
  end.

(* the bounded family of the multi-array theorem: leading shapes of rank 1-3 with axis lengths
   0-2, index tuples of up to 3 entries, each entry drawn from a pool built for the axis it meets *)
Fixpoint shapes_of_rank (r : nat) : list shape :=
  match r with
  | 0 => [[]]
  | S r' => flat_map (fun s => map (fun n => n :: s) [0; 1; 2]) (shapes_of_rank r')
  end.
Definition family_shapes : list shape := shapes_of_rank 1 ++ shapes_of_rank 2 ++ shapes_of_rank 3.
Definition alt (n : nat) (par : nat) : list bool := map (fun i => Nat.eqb (Nat.modulo i 2) par) (seq 0 n).
Definition pool (n : nat) (rest : shape) : list entry :=
  let nz := Z.of_nat n in
  [EInt 0 false; EInt (-1) false; EInt nz false; EInt 0 true;
   ESlice None None None; ESlice None None (Some (-1)%Z); ESlice (Some 1%Z) None None;
   ENone; EEll; EBool true false; EBool false false; EBool true true;
   EIArr [2] [(nz - 1)%Z; 0%Z] []; EIArr [2] [0%Z; nz] [false; true]; EIArr [2; 1] [(-1)%Z; 0%Z] [];
   EIArr [1; 2] [0%Z; 0%Z] [true; false];
   EBArr [n] (alt n 0) []; EBArr [n] (alt n 1) (map (Nat.eqb 0) (seq 0 n))]
  ++ match rest with
     | a :: b :: _ => [EVec 2 [2] [0%Z; (Z.of_nat b - 1)%Z; (Z.of_nat a - 1)%Z; 0%Z] [false; true];
                       EBArr [a; b] (map (fun i => negb (Nat.eqb (Nat.modulo i 3) 1)) (seq 0 (a * b))) []]
     | _ => []
     end.
Definition advance (e : entry) : nat := match e with EVec n _ _ _ => n | _ => consumes e end.
Fixpoint tuples (depth : nat) (rest : shape) : list (list entry) :=
  match depth with
  | 0 => [[]]
  | S d => [] :: flat_map (fun e => map (cons e) (tuples d (skipn (advance e) rest))) (pool (hd 1 rest) rest)
  end.
Definition family_ok_on (shapes : list shape) (depth : nat) : bool :=
  forallb (fun sh => forallb (fun ents => sel_agree (ref_getitem sh ents) (np_getitem sh ents)) (tuples depth sh))
          shapes.
Definition family_ok (depth : nat) : bool := family_ok_on family_shapes depth.
Definition family_shapes12 : list shape := shapes_of_rank 1 ++ shapes_of_rank 2.

(* ------------------------------------------------------------------------- *)
(* cases and observations for the correspondence                               *)
(* ------------------------------------------------------------------------- *)
Definition V := list Z.
Definition mkplL (s : shape) (v : list (list Z)) (m : mrepL) : plain V :=
  mkpl s (fun i => nth (ravel s i) v []) (mrep_of s m).
Definition eobs := (shape * list (option (list Z)))%type.
Definition obs_plain (p : plain V) : eobs :=
  (psh p, map (fun i => if mget (pmask p) i then None else Some (pval p i)) (all_mi (psh p))).
Definition obs_obj (q : obj V) : list eobs := obs_plain (omain q) :: map (fun kp => obs_plain (snd kp)) (oders q).

Inductive obs := OErr | OOther | OObj (l : list eobs) | OSeq (l : list (option (list eobs))).

Fixpoint zlist_eqb (a b : list Z) : bool :=
  match a, b with
  | [], [] => true
  | x :: a', y :: b' => Z.eqb x y && zlist_eqb a' b'
  | _, _ => false
  end.
Definition oz_eqb (a b : option (list Z)) : bool :=
  match a, b with None, None => true | Some x, Some y => zlist_eqb x y | _, _ => false end.
Fixpoint list_eqb {A} (f : A -> A -> bool) (a b : list A) : bool :=
  match a, b with
  | [], [] => true
  | x :: a', y :: b' => f x y && list_eqb f a' b'
  | _, _ => false
  end.
Definition eobs_eqb (a b : eobs) : bool := shape_eqb (fst a) (fst b) && list_eqb oz_eqb (snd a) (snd b).
Definition oeobs_eqb (a b : option (list eobs)) : bool :=
  match a, b with None, None => true | Some x, Some y => list_eqb eobs_eqb x y | _, _ => false end.
Definition obs_eqb (x y : obs) : bool :=
  match x, y with
  | OErr, OErr => true
  | OObj a, OObj b => list_eqb eobs_eqb a b
  | OSeq a, OSeq b => list_eqb oeobs_eqb a b
  | _, _ => false
  end.

Inductive case09 :=
| CGet (main : plain V) (ders : list (plain V)) (idx : list entry)
| CIter (main : plain V) (ders : list (plain V))
| CEnum (main : plain V) (ders : list (plain V)).

Definition number {A} (l : list A) : list (nat * A) := combine (seq 0 (length l)) l.
Definition run09 (c : case09) : obs :=
  match c with
  | CGet m ds idx =>
      match getitem [] (mkobj m (number ds)) idx with
      | None => OErr
      | Some r => OObj (obs_obj r)
      end
  | CIter m ds => OSeq (map (option_map obs_obj) (iter_items [] (mkobj m (number ds))))
  | CEnum m ds => OSeq (map (fun p => option_map obs_obj (snd p)) (enum_items [] (mkobj m (number ds))))
  end.

Fixpoint mism_from (k : nat) (l : list (case09 * obs)) : list nat :=
  match l with
  | [] => []
  | (c, o) :: t => if obs_eqb (run09 c) o then mism_from (S k) t else k :: mism_from (S k) t
  end.
Definition mismatches := mism_from 0.
