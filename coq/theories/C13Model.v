(* C13 model: reductions and ordering operations under masks
   (extensions/math_ops.py _mean_or_sum/_check_axis/_zero_sized_result, scalar.py
   max/min/argmax/argmin/median/sort/maximum/minimum, qube.py any/all).
   Proof-free: the model must still run when a proof breaks.

   Values are Z.  Integer data are themselves; float data enter through an order
   embedding (2x for halves, +-2^40 for +-inf) chosen by the harness, and [lo]/[hi]
   are the images of Scalar._minval()/_maxval() (the fill values). Results carry a
   rational (numerator, denominator) so that mean and median are exact. *)
From Coq Require Import List Arith ZArith Bool.
From PM Require Import Base Mask.
Import ListNotations.

(* ---- the axis argument ---- *)
Inductive axarg := AxNone | AxInt (a : Z) | AxTup (l : list Z).

(* Python indexing selections[a] of a list of length [rank] *)
Definition norm_ax (rank : nat) (a : Z) : option nat :=
  let n := Z.of_nat rank in
  if (Z.leb (- n) a && Z.ltb a n)%Z
  then Some (Z.to_nat (if Z.ltb a 0 then a + n else a)%Z) else None.

Fixpoint set_true (k : nat) (l : list bool) : list bool :=
  match l, k with
  | [], _ => []
  | _ :: t, O => true :: t
  | x :: t, S k' => x :: set_true k' t
  end.

(* _check_axis: walk the axes, fail (IndexError) on out-of-range or duplicate;
   the surviving [selections] list marks the reduced axes (a % rank) *)
Fixpoint check_list (rank : nat) (l : list Z) (sel : list bool) : option (list bool) :=
  match l with
  | [] => Some sel
  | a :: t =>
      match norm_ax rank a with
      | None => None
      | Some k => if nth k sel false then None else check_list rank t (set_true k sel)
      end
  end.

Definition axes_sel (rank : nat) (ax : axarg) : option (list bool) :=
  match ax with
  | AxNone => Some (repeat true rank)
  | AxInt a => check_list rank [a] (repeat false rank)
  | AxTup l => check_list rank l (repeat false rank)
  end.
Definition keep_of (sel : list bool) : list bool := map negb sel.

(* ---- objects ---- *)
Record nobj := mkn { nsh : shape; nval : mi -> Z; nmask : mrep }.
Record robj := mkr { rsh : shape; rval : mi -> Z * Z; rmask : mi -> bool }.
Inductive res := RErr | ROk (r : robj).

(* value and mask of each element, as one array of pairs *)
Definition parr (a : nobj) : arr (Z * bool) :=
  mkarr (nsh a) (fun i => (nval a i, mget (nmask a) i)).
Definition any_mask (a : nobj) : bool := existsb (mget (nmask a)) (all_mi (nsh a)).   (* np.any(mask) *)
Definition all_mask (a : nobj) : bool := forallb (mget (nmask a)) (all_mi (nsh a)).   (* np.all(mask) *)

(* ---- list-level kernels (what NumPy does along the reduced axes) ---- *)
Definition vals (l : list (Z * bool)) : list Z := map fst l.
Definition um (l : list (Z * bool)) : list Z :=          (* the unmasked contributors *)
  map fst (filter (fun p => negb (snd p)) l).
Definition fill (c : Z) (p : Z * bool) : Z := if snd p then c else fst p.
Definition filled (c : Z) (l : list (Z * bool)) : list Z := map (fill c) l.
Definition count_um (l : list (Z * bool)) : nat := length (filter (fun p => negb (snd p)) l).

Definition zsum (l : list Z) : Z := fold_right Z.add 0%Z l.
Definition zmax_l (l : list Z) : Z := match l with [] => 0%Z | x :: t => fold_left Z.max t x end.
Definition zmin_l (l : list Z) : Z := match l with [] => 0%Z | x :: t => fold_left Z.min t x end.
Fixpoint first_idx {A} (p : A -> bool) (l : list A) : nat :=
  match l with [] => 0 | x :: t => if p x then 0 else S (first_idx p t) end.
(* np.argmax / np.argmin: the first occurrence of the extreme *)
Definition argmax_l (l : list Z) : nat := first_idx (Z.eqb (zmax_l l)) l.
Definition argmin_l (l : list Z) : nat := first_idx (Z.eqb (zmin_l l)) l.
(* np.argmin of a boolean list: the first False, 0 when there is none *)
Definition first_unmasked (l : list (Z * bool)) : nat :=
  if forallb snd l then 0 else first_idx (fun p => negb (snd p)) l.

Fixpoint insert (x : Z) (l : list Z) : list Z :=
  match l with
  | [] => [x]
  | y :: t => if (x <=? y)%Z then x :: l else y :: insert x t
  end.
Definition isort (l : list Z) : list Z := fold_right insert [] l.        (* np.sort *)
Definition sort_bools (l : list bool) : list bool :=                      (* np.sort of a mask *)
  repeat false (length (filter negb l)) ++ repeat true (length (filter (fun b => b) l)).
Definition nthZ (k : nat) (l : list Z) : Z := nth k l 0%Z.
Definition median_l (l : list Z) : Z * Z :=                               (* np.median *)
  let s := isort l in
  ((nthZ ((length l - 1) / 2) s + nthZ (length l / 2) s)%Z, 2%Z).

Definition unit (z : Z) : Z * Z := (z, 1%Z).
Definition znat (n : nat) : Z := Z.of_nat n.

(* ---- the common skeleton of _mean_or_sum / max / min / argmax / argmin / median ----
   check the axis; zero-sized; shapeless; no mask; all masked; [axis=None] short cut;
   mixed.  [shapeless] says what an object of shape () returns. *)
Definition zero_sized (s : shape) (keep : list bool) : robj :=
  mkr (out_shape s keep) (fun _ => unit 1%Z) (fun _ => true).   (* masked_single().broadcast_to *)

Definition skel (a : nobj) (ax : axarg) (shapeless : res)
    (plain : list (Z * bool) -> Z * Z)
    (none_mixed : option (list (Z * bool) -> Z * Z))
    (mixed : list (Z * bool) -> Z * Z)
    (mmask : list (Z * bool) -> bool) : res :=
  match axes_sel (length (nsh a)) ax with
  | None => RErr
  | Some sel =>
    let keep := keep_of sel in
    match nsh a with
    | [] => shapeless
    | _ =>
      if size (nsh a) =? 0 then ROk (zero_sized (nsh a) keep)
      else
        let os := out_shape (nsh a) keep in
        let c := contrib (parr a) keep in
        if negb (any_mask a) then ROk (mkr os (fun o => plain (c o)) (fun _ => false))
        else if all_mask a then ROk (mkr os (fun o => plain (c o)) (fun _ => true))
        else match ax, none_mixed with
             | AxNone, Some f => ROk (mkr os (fun o => f (c o)) (fun _ => false))
             | _, _ => ROk (mkr os (fun o => mixed (c o)) (fun o => mmask (c o)))
             end
    end
  end.

Definition self_res (a : nobj) (f : Z -> Z * Z) : res :=
  ROk (mkr (nsh a) (fun i => f (nval a i)) (mget (nmask a))).

(* sum / mean: zero-fill, count, divide by max(count, 1) *)
Definition q_sum (ax : axarg) (a : nobj) : res :=
  skel a ax
    (self_res a unit)
    (fun l => unit (zsum (vals l)))
    (Some (fun l => unit (zsum (um l))))
    (fun l => unit (zsum (filled 0%Z l)))
    (fun l => count_um l =? 0).
Definition q_mean (ax : axarg) (a : nobj) : res :=
  skel a ax
    (self_res a unit)
    (fun l => (zsum (vals l), znat (length l)))
    (Some (fun l => (zsum (um l), znat (count_um l))))
    (fun l => (zsum (filled 0%Z l), znat (Nat.max (count_um l) 1)))
    (fun l => count_um l =? 0).

(* max / min: fill the masked slots with the smallest / largest possible value *)
Definition q_max (lo : Z) (ax : axarg) (a : nobj) : res :=
  skel a ax (self_res a unit)
    (fun l => unit (zmax_l (vals l))) None
    (fun l => unit (zmax_l (filled lo l)))
    (fun l => forallb snd l).
Definition q_min (hi : Z) (ax : axarg) (a : nobj) : res :=
  skel a ax (self_res a unit)
    (fun l => unit (zmin_l (vals l))) None
    (fun l => unit (zmin_l (filled hi l)))
    (fun l => forallb snd l).

(* argmax / argmin: as above; where the extreme of the filled values equals the fill
   value a masked slot may have won the tie, so take the first unmasked position *)
Definition only_int_axis (ax : axarg) (r : res) : res :=
  match ax with AxTup _ => RErr | _ => r end.
Definition q_argmax (lo : Z) (ax : axarg) (a : nobj) : res :=
  only_int_axis ax
  (skel a ax RErr
    (fun l => unit (znat (argmax_l (vals l)))) None
    (fun l => unit (znat (if (zmax_l (filled lo l) =? lo)%Z then first_unmasked l
                          else argmax_l (filled lo l))))
    (fun l => forallb snd l)).
Definition q_argmin (hi : Z) (ax : axarg) (a : nobj) : res :=
  only_int_axis ax
  (skel a ax RErr
    (fun l => unit (znat (argmin_l (vals l)))) None
    (fun l => unit (znat (if (zmin_l (filled hi l) =? hi)%Z then first_unmasked l
                          else argmin_l (filled hi l))))
    (fun l => forallb snd l)).

(* median: sort with the masked slots filled by the largest value, count the unmasked
   ones, average the middle one or two *)
Definition q_median (hi : Z) (ax : axarg) (a : nobj) : res :=
  skel a ax (self_res a unit)
    (fun l => median_l (vals l))
    (Some (fun l => median_l (um l)))
    (fun l => let s := isort (filled hi l) in
              let n := count_um l in
              ((nthZ ((n - 1) / 2) s + nthZ (n / 2) s)%Z, 2%Z))
    (fun l => count_um l =? 0).

(* any / all (Qube.any): illegal axes are rejected (by NumPy; for shape () the code as
   it stands ignores the axis - known finding KF-C13-anyall-shapeless-axis, the model
   states the intended rejection); no zero-sized branch; a scalar mask is passed through *)
Definition bz (b : bool) : Z * Z := unit (if b then 1%Z else 0%Z).
Definition nz (z : Z) : bool := negb (Z.eqb z 0).
Definition q_anyall (isall : bool) (ax : axarg) (a : nobj) : res :=
  match axes_sel (length (nsh a)) ax with
  | None => RErr
  | Some sel =>
    match nsh a with
    | [] => self_res a (fun v => bz (nz v))
    | _ =>
      let keep := keep_of sel in
      let os := out_shape (nsh a) keep in
      let c := contrib (parr a) keep in
      match nmask a with
      | MS b =>
          ROk (mkr os (fun o => bz (if isall then forallb nz (vals (c o)) else existsb nz (vals (c o))))
                   (fun _ => b))
      | MA _ =>
          ROk (mkr os
                 (fun o => bz (if isall
                               then forallb (fun p => nz (fst p) || snd p) (c o)
                               else existsb (fun p => nz (fst p) && negb (snd p)) (c o)))
                 (fun o => forallb snd (c o)))
      end
    end
  end.

(* sort along one axis (or flattened for axis=None): fill with the largest value, sort
   values and mask separately *)
Fixpoint pick (keep : list bool) (want : bool) (i : mi) : mi :=
  match keep, i with
  | k :: keep', x :: i' => if Bool.eqb k want then x :: pick keep' want i' else pick keep' want i'
  | _, _ => []
  end.
Definition q_sort (hi : Z) (ax : axarg) (a : nobj) : res :=
  match ax with
  | AxTup _ => RErr
  | _ =>
    match axes_sel (length (nsh a)) ax with
    | None => RErr
    | Some sel =>
      if size (nsh a) =? 0
      then match ax with                     (* nothing to sort; axis=None flattens *)
           | AxNone => ROk (mkr [0] (fun _ => unit 0%Z) (fun _ => true))
           | _ => self_res a unit
           end
      else
        let keep := keep_of sel in
        let flat := match ax with AxNone => true | _ => false end in
        let os := if flat then [size (nsh a)] else nsh a in
        let line i := contrib (parr a) keep (if flat then [] else pick keep true i) in
        let pos i := if flat then hd 0 i else hd 0 (pick keep false i) in
        if negb (any_mask a)
        then ROk (mkr os (fun i => unit (nthZ (pos i) (isort (vals (line i))))) (fun _ => false))
        else ROk (mkr os (fun i => unit (nthZ (pos i) (isort (filled hi (line i)))))
                      (fun i => match nmask a with
                                | MS b => b
                                | MA _ => nth (pos i) (sort_bools (map snd (line i))) false
                                end))
    end
  end.

(* Scalar.maximum / minimum: broadcast, then for every further candidate overwrite the
   running result where (candidate better and unmasked) or (result masked) *)
Definition mm_step (better : Z -> Z -> bool) (acc c : Z * bool) : Z * bool :=
  if (better (fst c) (fst acc) && negb (snd c)) || snd acc then c else acc.
Definition cand_at (c : nobj) (r : mi) : Z * bool :=
  (nval c (bproj (nsh c) r), mget (nmask c) (bproj (nsh c) r)).
Definition q_maxmin (ismin : bool) (cs : list nobj) : res :=
  match cs with
  | [] => RErr
  | c0 :: rest =>
    match fold_left (fun os c => match os with None => None | Some s => bshape s (nsh c) end)
                    rest (Some (nsh c0)) with
    | None => RErr
    | Some s =>
      let better := if ismin then Z.ltb else Z.gtb in
      let fin r := fold_left (mm_step better) (map (fun c => cand_at c r) rest) (cand_at c0 r) in
      ROk (mkr s (fun r => unit (fst (fin r))) (fun r => snd (fin r)))
    end
  end.

(* ---- observation (the projection compared with the implementation) ---- *)
Inductive obs := OErr | OArr (s : shape) (m : list bool) (comps : list (list (Z * Z))).

Fixpoint all_ok (l : list res) : option (list robj) :=
  match l with
  | [] => Some []
  | RErr :: _ => None
  | ROk r :: t => match all_ok t with Some rs => Some (r :: rs) | None => None end
  end.
Definition obs_of (l : list res) : obs :=
  match all_ok l with
  | Some (r :: rs) =>
      OArr (rsh r) (map (rmask r) (all_mi (rsh r)))
           (map (fun r' => map (rval r') (all_mi (rsh r))) (r :: rs))
  | _ => OErr
  end.

(* rationals agree within 2^-40 (exactly, when the denominators are 1) *)
Definition close (x y : Z * Z) : bool :=
  let '(n, d) := x in let '(p, q) := y in
  negb (Z.eqb d 0) && negb (Z.eqb q 0) &&
  (Z.abs (n * q - p * d) * 1099511627776 <=? Z.abs (d * q))%Z.
Fixpoint bools_eqb (a b : list bool) : bool :=
  match a, b with
  | [], [] => true
  | x :: a', y :: b' => Bool.eqb x y && bools_eqb a' b'
  | _, _ => false
  end.
Fixpoint comp_eqb (m : list bool) (a b : list (Z * Z)) : bool :=
  match m, a, b with
  | [], [], [] => true
  | k :: m', x :: a', y :: b' => (k || close x y) && comp_eqb m' a' b'
  | _, _, _ => false
  end.
Fixpoint comps_eqb (m : list bool) (a b : list (list (Z * Z))) : bool :=
  match a, b with
  | [], [] => true
  | x :: a', y :: b' => comp_eqb m x y && comps_eqb m a' b'
  | _, _ => false
  end.
Definition obs_eqb (x y : obs) : bool :=
  match x, y with
  | OErr, OErr => true
  | OArr s m c, OArr s' m' c' => shape_eqb s s' && bools_eqb m m' && comps_eqb m c c'
  | _, _ => false
  end.

(* ---- cases ---- *)
Definition mknL (s : shape) (v : list Z) (m : mrepL) : nobj :=
  mkn s (fun i => nth (ravel s i) v 0%Z) (mrep_of s m).

Inductive case13 :=
| CSum (mean : bool) (s : shape) (m : mrepL) (ax : axarg) (comps : list (list Z))
| CExt (which : nat) (lo hi : Z) (s : shape) (m : mrepL) (ax : axarg) (v : list Z)
     (* 0 max 1 min 2 argmax 3 argmin 4 median 5 sort *)
| CAnyAll (isall : bool) (s : shape) (m : mrepL) (ax : axarg) (v : list bool)
| CMaxMin (ismin : bool) (cs : list (shape * list Z * mrepL)).

Definition run13 (c : case13) : obs :=
  match c with
  | CSum mean s m ax comps =>
      obs_of (map (fun v => (if mean then q_mean else q_sum) ax (mknL s v m)) comps)
  | CExt w lo hi s m ax v =>
      let a := mknL s v m in
      obs_of [match w with
              | 0 => q_max lo ax a | 1 => q_min hi ax a
              | 2 => q_argmax lo ax a | 3 => q_argmin hi ax a
              | 4 => q_median hi ax a | _ => q_sort hi ax a
              end]
  | CAnyAll isall s m ax v =>
      obs_of [q_anyall isall ax (mknL s (map (fun b : bool => if b then 1%Z else 0%Z) v) m)]
  | CMaxMin ismin cs =>
      obs_of [q_maxmin ismin (map (fun c => match c with (s, v, m) => mknL s v m end) cs)]
  end.

Fixpoint mism_from (k : nat) (l : list (case13 * obs)) : list nat :=
  match l with
  | [] => []
  | (c, o) :: t => if obs_eqb (run13 c) o then mism_from (S k) t else k :: mism_from (S k) t
  end.
Definition mismatches := mism_from 0.
