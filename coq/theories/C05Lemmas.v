(* C05 proofs.  All statements are about the model in C05Model.v; [t] is any class table with
   [table_ok t = true] (the regenerated one is checked against it in coq/gen/Gen_classes.v). *)
From Coq Require Import List Arith Bool ZArith String Lia.
From PM Require Import Base C05Model.
Import ListNotations.
Close Scope string_scope.
Open Scope list_scope.
Open Scope bool_scope.

Ltac split_andb :=
  repeat match goal with
         | H : _ && _ = true |- _ => apply andb_true_iff in H; destruct H
         | |- _ && _ = true => apply andb_true_iff; split
         end.

(* ---------- helpers ---------- *)
Lemma leqb_eq a : forall b, leqb a b = true <-> a = b.
Proof.
  induction a as [|x a IH]; intros [|y b]; simpl; split; intro H; try discriminate; auto.
  - apply andb_true_iff in H. destruct H as [H1 H2]. apply Nat.eqb_eq in H1. apply IH in H2. congruence.
  - inversion H; subst. rewrite Nat.eqb_refl. simpl. apply IH. reflexivity.
Qed.
Lemma leqb_refl a : leqb a a = true.
Proof. apply leqb_eq. reflexivity. Qed.

Lemma is_nil_true {A} (l : list A) : is_nil l = true <-> l = [].
Proof. destruct l; simpl; split; intro H; auto; discriminate. Qed.

Lemma mem_s_in k l : mem_s k l = true <-> In k l.
Proof.
  unfold mem_s. rewrite existsb_exists. split.
  - intros (x & Hx & E). apply String.eqb_eq in E. subst. exact Hx.
  - intro H. exists k. split; auto. apply String.eqb_refl.
Qed.
Lemma incl_s_spec a b : incl_s a b = true <-> (forall k, In k a -> In k b).
Proof.
  unfold incl_s. rewrite forallb_forall. split; intros H k Hk.
  - apply mem_s_in. apply H. exact Hk.
  - apply mem_s_in. apply H. exact Hk.
Qed.
Lemma same_set_spec a b : same_set a b = true <-> (forall k, In k a <-> In k b).
Proof.
  unfold same_set. rewrite andb_true_iff, !incl_s_spec. split.
  - intros [H1 H2] k. split; auto.
  - intro H. split; intros k Hk; apply H; exact Hk.
Qed.

Lemma in_remove_s k x l : In x (remove_s k l) <-> In x l /\ x <> k.
Proof.
  unfold remove_s. rewrite filter_In. split; intros [H1 H2]; split; auto.
  - intro E. subst. rewrite String.eqb_refl in H2. discriminate.
  - destruct (String.eqb k x) eqn:E; auto. apply String.eqb_eq in E. congruence.
Qed.
Lemma in_remove_key k x l : In x (map fst (remove_key k l)) <-> In x (map fst l) /\ x <> k.
Proof.
  induction l as [|[k' d] l IH]; simpl.
  - tauto.
  - destruct (String.eqb k k') eqn:E.
    + apply String.eqb_eq in E. subst k'. rewrite IH. split.
      * intros [H1 H2]. split; auto.
      * intros [[H1|H1] H2]; [congruence|]. split; auto.
    + apply String.eqb_neq in E. simpl. rewrite IH. split.
      * intros [H|[H1 H2]]; [subst; split; auto; congruence | split; auto].
      * intros [[H1|H1] H2]; auto.
Qed.
Lemma in_remove_key_elem k kd l : In kd (remove_key k l) -> In kd l.
Proof.
  induction l as [|[k' d] l IH]; simpl; auto.
  destruct (String.eqb k k'); simpl; intros H; auto. destruct H; auto.
Qed.

Lemma forallb_remove_key (f : string * dsnap -> bool) k l :
  forallb f l = true -> forallb f (remove_key k l) = true.
Proof.
  rewrite !forallb_forall. intros H x Hx. apply H. eapply in_remove_key_elem; eauto.
Qed.

(* ---------- why / wf agree ---------- *)
Lemma filter_nil_iff {A} (f : A -> bool) l : filter f l = [] <-> forallb (fun x => negb (f x)) l = true.
Proof.
  induction l as [|x l IH]; simpl; [tauto|].
  destruct (f x); simpl; [split; intro H; discriminate | exact IH].
Qed.
Lemma map_nil_iff {A B} (f : A -> B) l : map f l = [] <-> l = [].
Proof. destruct l; simpl; split; intro H; auto; discriminate. Qed.

Lemma clauses_ok_core t c :
  forallb (fun nb : nat * bool => snd nb) (core_clauses t c) = wf_core t c.
Proof. unfold core_clauses, wf_core. simpl. rewrite andb_true_r. rewrite !andb_assoc. reflexivity. Qed.

Lemma forallb_map' {A B} (f : B -> bool) (g : A -> B) l :
  forallb f (map g l) = forallb (fun x => f (g x)) l.
Proof. induction l as [|x l IH]; simpl; auto. rewrite IH. reflexivity. Qed.

Lemma clauses_ok_deriv t p d :
  forallb (fun nb : nat * bool => snd nb) (deriv_clauses t p d) = wf_deriv t p d.
Proof.
  unfold deriv_clauses, wf_deriv. rewrite forallb_app, forallb_map'. simpl snd.
  rewrite clauses_ok_core. simpl. rewrite andb_true_r. rewrite !andb_assoc. reflexivity.
Qed.

Lemma forallb_flat_map {A B} (f : B -> bool) (g : A -> list B) l :
  forallb f (flat_map g l) = forallb (fun x => forallb f (g x)) l.
Proof. induction l as [|x l IH]; simpl; auto. rewrite forallb_app, IH. reflexivity. Qed.

Lemma forallb_ext' {A} (f g : A -> bool) l : (forall x, f x = g x) -> forallb f l = forallb g l.
Proof. intro H. induction l as [|x l IH]; simpl; auto. rewrite H, IH. reflexivity. Qed.

Lemma clauses_ok t s : forallb (fun nb : nat * bool => snd nb) (snap_clauses t s) = wf t s.
Proof.
  unfold snap_clauses, wf. rewrite !forallb_app, clauses_ok_core, forallb_flat_map. simpl.
  rewrite andb_true_r.
  rewrite (forallb_ext' _ (fun kd => wf_deriv t (s_core s) (snd kd))).
  - rewrite !andb_assoc. reflexivity.
  - intro x. apply clauses_ok_deriv.
Qed.

(* the diagnosis [why] is empty exactly when [wf] holds *)
Lemma why_wf t s : why t s = [] <-> wf t s = true.
Proof.
  unfold why. rewrite map_nil_iff, filter_nil_iff, <- clauses_ok.
  rewrite (forallb_ext' _ (fun nb : nat * bool => snd nb)); [tauto|].
  intro x. apply negb_involutive.
Qed.

Lemma bad_from_spec t l : forall i,
  bad_from t i l = [] <-> forallb (wf t) l = true.
Proof.
  induction l as [|s l IH]; intro i; simpl; [tauto|].
  destruct (wf t s); simpl; [apply IH | split; intro H; discriminate].
Qed.
Lemma bad_records_nil t l : bad_records t l = [] <-> forallb (wf t) l = true.
Proof. apply bad_from_spec. Qed.

(* ---------- the class table ---------- *)
Lemma table_ok_info t c : table_ok t = true -> info_ok (t c) = true.
Proof.
  unfold table_ok. rewrite forallb_forall. intro H. apply H.
  destruct c; simpl; auto 12.
Qed.

(* ---------- mk_qube ---------- *)
Lemma firstn_skipn_split (l : list nat) nn nr :
  l = firstn nn l ++ firstn nr (skipn nn l) ++ skipn nr (skipn nn l).
Proof. rewrite (firstn_skipn nr (skipn nn l)). rewrite firstn_skipn. reflexivity. Qed.

Lemma mk_vals_shape k l : match mk_vals k l with
                          | VArr _ s => s = l /\ l <> []
                          | VScalar _ => l = []
                          | VOther => False end.
Proof. unfold mk_vals. destruct l; simpl; auto. split; auto. discriminate. Qed.
Lemma vkind_mk_vals k l : vkind (mk_vals k l) = k.
Proof. unfold mk_vals. destruct (is_nil l); reflexivity. Qed.

Lemma suitable_kind_ok ci k k' :
  (ci_floats ci || ci_ints ci || ci_bools ci) = true ->
  suitable_kind ci k = Some k' -> kind_ok ci k' = true.
Proof.
  intros H E. destruct k; simpl in E; try discriminate; inversion E; subst; clear E;
    destruct (ci_floats ci) eqn:F, (ci_ints ci) eqn:I, (ci_bools ci) eqn:B; simpl in *;
    rewrite ?F, ?I, ?B; auto; discriminate.
Qed.

Theorem mk_qube_wf t (Ht : table_ok t = true) : forall a s,
  mk_qube t a = Some s -> wf t s = true.
Proof.
  intros a s E. unfold mk_qube in E.
  pose proof (table_ok_info t (a_cls a) Ht) as Hi.
  set (ci := t (a_cls a)) in *.
  set (nrank := match or_else (nz (a_nrank a)) (nz (ci_nrank ci)) with Some n => n | None => 0 end) in *.
  set (drank := match nz (a_drank a) with Some n => n | None => 0 end) in *.
  destruct (a_units a && negb (ci_units ci)) eqn:EU; [discriminate|].
  destruct (match ci_nrank ci with Some n => negb (nrank =? n) | None => false end) eqn:EN; [discriminate|].
  destruct (negb (drank =? 0) && negb (ci_derivs ci)) eqn:ED; [discriminate|].
  destruct (List.length (a_full a) <? nrank + drank) eqn:EL; [discriminate|].
  apply Nat.ltb_ge in EL.
  set (nn := List.length (a_full a) - (nrank + drank)) in *.
  destruct (suitable_kind ci (a_kind a)) as [k|] eqn:EK; [|discriminate].
  destruct (match ci_numer ci with
            | Some n => negb (leqb (firstn nrank (skipn nn (a_full a))) n)
            | None => false end) eqn:EM; [discriminate|].
  match type of E with
  | match ?mm with Some _ => _ | None => _ end = _ => destruct mm as [[m mw]|] eqn:EMask; [|discriminate]
  end.
  inversion E; subst s; clear E.
  unfold info_ok in Hi. split_andb.
  assert (Hlen1 : List.length (skipn nn (a_full a)) = nrank + drank).
  { rewrite skipn_length. unfold nn. lia. }
  assert (Hnum : List.length (firstn nrank (skipn nn (a_full a))) = nrank).
  { rewrite firstn_length. lia. }
  assert (Hden : List.length (skipn nrank (skipn nn (a_full a))) = drank).
  { rewrite skipn_length. lia. }
  unfold wf. simpl. rewrite !andb_true_r.
  unfold wf_core. split_andb.
  - (* values *)
    unfold cl_vals. simpl.
    pose proof (mk_vals_shape k (a_full a)) as Hv.
    rewrite <- (firstn_skipn_split (a_full a) nn nrank).
    destruct (mk_vals k (a_full a)); [destruct Hv as [-> _]; apply leqb_refl | subst; rewrite Hv; reflexivity | contradiction].
  - (* mask *)
    unfold cl_mask. simpl.
    destruct (a_mask a) as [b|ms w v0].
    + inversion EMask; subst. reflexivity.
    + destruct (is_nil ms && is_nil (firstn nn (a_full a))); [inversion EMask; subst; reflexivity|].
      destruct (leqb ms (firstn nn (a_full a))) eqn:E1.
      * inversion EMask; subst. apply leqb_refl.
      * destruct (bshape ms (firstn nn (a_full a))) as [r|]; [|discriminate].
        destruct (leqb r (firstn nn (a_full a))); [|discriminate].
        inversion EMask; subst. apply leqb_refl.
  - (* rank *)
    unfold cl_rank. simpl. rewrite leqb_refl, Hnum, Hden, !Nat.eqb_refl. reflexivity.
  - (* size *)
    unfold cl_size. simpl. rewrite !Z.eqb_refl. reflexivity.
  - (* default *)
    unfold cl_default. simpl.
    assert (Hd : match ci_default ci with
                 | Some d => if (drank =? 0) && negb (a_defgiven a) then d
                             else firstn nrank (skipn nn (a_full a)) ++ skipn nrank (skipn nn (a_full a))
                 | None => firstn nrank (skipn nn (a_full a)) ++ skipn nrank (skipn nn (a_full a)) end
                 = firstn nrank (skipn nn (a_full a)) ++ skipn nrank (skipn nn (a_full a))).
    { destruct (ci_default ci) as [d|] eqn:Edf; auto.
      destruct ((drank =? 0) && negb (a_defgiven a)) eqn:E0; auto.
      apply andb_true_iff in E0. destruct E0 as [E0 _]. apply Nat.eqb_eq in E0.
      destruct (ci_numer ci) as [n|] eqn:En; [|discriminate].
      match goal with H : leqb d n = true |- _ => apply leqb_eq in H; subst d end.
      apply negb_false_iff in EM. apply leqb_eq in EM.
      assert (skipn nrank (skipn nn (a_full a)) = []) as ->.
      { apply length_zero_iff_nil. rewrite Hden. exact E0. }
      rewrite app_nil_r. symmetry. exact EM. }
    rewrite Hd.
    pose proof (mk_vals_shape k (firstn nrank (skipn nn (a_full a)) ++ skipn nrank (skipn nn (a_full a)))) as Hv.
    destruct (mk_vals k _); [destruct Hv as [-> _]; apply leqb_refl | rewrite Hv; reflexivity | contradiction].
  - (* class *)
    unfold cl_class. simpl. fold ci. split_andb.
    + destruct (ci_nrank ci); auto. apply negb_false_iff in EN. exact EN.
    + destruct (ci_numer ci); auto. apply negb_false_iff in EM. exact EM.
    + rewrite vkind_mk_vals. eapply suitable_kind_ok; eauto.
    + destruct (a_units a); simpl in *; auto. apply negb_false_iff in EU. exact EU.
    + destruct (drank =? 0) eqn:E0; simpl in *; auto. apply negb_false_iff in ED. exact ED.
  - (* read-only *)
    unfold cl_ro. simpl.
    set (vw := if kind_eqb k (a_kind a) then a_vw a else true) in *.
    destruct (negb (is_nil (a_full a))) eqn:Earr; simpl.
    + destruct vw eqn:Evw; simpl; auto.
      destruct (a_mask a) as [b|ms w v0].
      * inversion EMask; subst. reflexivity.
      * destruct (is_nil ms && is_nil (firstn nn (a_full a))); [inversion EMask; subst; reflexivity|].
        destruct (leqb ms (firstn nn (a_full a))).
        { inversion EMask; subst. rewrite andb_false_r. reflexivity. }
        destruct (bshape ms (firstn nn (a_full a))) as [r|]; [|discriminate].
        destruct (leqb r (firstn nn (a_full a))); [|discriminate].
        inversion EMask; subst. reflexivity.
    + reflexivity.
Qed.

(* ---------- structural helpers preserve wf_core ---------- *)
Lemma vkind_set_kind v k : v <> VOther -> vkind (set_kind v k) = k.
Proof. destruct v; simpl; auto. congruence. Qed.

Lemma wf_core_vals_not_other t c : wf_core t c = true -> c_vals c <> VOther.
Proof.
  unfold wf_core. intro H. split_andb. unfold cl_vals in *. destruct (c_vals c); congruence.
Qed.

Lemma refloat_wf t c : wf_core t c = true -> ci_floats (t (c_cls c)) = true ->
  wf_core t (refloat c) = true.
Proof.
  intros H F. pose proof (wf_core_vals_not_other t c H) as Hv.
  unfold wf_core in *. split_andb.
  - unfold cl_vals in *. simpl. destruct (c_vals c); simpl; auto.
  - unfold cl_mask in *. simpl. auto.
  - unfold cl_rank in *. simpl. auto.
  - unfold cl_size in *. simpl. auto.
  - unfold cl_default in *. simpl. destruct (c_default c); simpl; auto.
  - unfold cl_class in *. simpl. split_andb; auto.
    rewrite vkind_set_kind; auto.
  - unfold cl_ro. simpl. reflexivity.
Qed.

Lemma off_not_true o : opt_true (off o) = false.
Proof. destruct o as [[|]|]; reflexivity. Qed.

Lemma freeze_wf t c : wf_core t c = true -> wf_core t (freeze c) = true.
Proof.
  intro H. unfold wf_core in *. split_andb; auto.
  unfold cl_ro. simpl. rewrite !off_not_true. reflexivity.
Qed.

Lemma thaw_wf t c : wf_core t c = true -> wf_core t (thaw_copy c) = true.
Proof. intro H. unfold wf_core in *. split_andb; auto. Qed.

Lemma bcast_wf t c s : wf_core t c = true -> wf_core t (bcast_core c s) = true.
Proof.
  intro H. pose proof (wf_core_vals_not_other t c H) as Hv. unfold wf_core in *. split_andb.
  - unfold cl_vals. simpl. apply leqb_refl.
  - unfold cl_mask in *. simpl. destruct (c_mask c) as [b|k ms|b|]; simpl; auto.
    destruct k; auto. apply leqb_refl.
  - unfold cl_rank in *. simpl. auto.
  - unfold cl_size in *. simpl. split_andb; auto. apply Z.eqb_refl.
  - unfold cl_default in *. simpl. auto.
  - unfold cl_class in *. simpl. auto.
  - unfold cl_ro. simpl. rewrite off_not_true. reflexivity.
Qed.

Lemma collapse_wf t c : wf_core t c = true -> wf_core t (collapse_core c) = true.
Proof.
  intro H. unfold wf_core in *. split_andb.
  - unfold cl_vals. simpl. destruct (is_nil (c_numer c ++ c_denom c)) eqn:E; simpl; auto. apply leqb_refl.
  - reflexivity.
  - unfold cl_rank in *. simpl. auto.
  - unfold cl_size in *. simpl. split_andb; auto.
  - unfold cl_default in *. simpl. auto.
  - unfold cl_class in *. simpl. split_andb; auto.
    destruct (is_nil (c_numer c ++ c_denom c)); simpl; auto.
  - unfold cl_ro. simpl. destruct (is_nil (c_numer c ++ c_denom c)); simpl; auto.
    destruct (c_vw c) as [[|]|]; reflexivity.
Qed.

Lemma broadcast_wf t c s c' : wf_core t c = true -> broadcast_core c s = Some c' ->
  wf_core t c' = true.
Proof.
  intros H E. unfold broadcast_core in E.
  destruct (leqb (c_shape c) s); [inversion E; subst; auto|].
  destruct (is_nil s).
  - destruct (c_size c =? 1)%Z; [|discriminate]. inversion E. apply collapse_wf; auto.
  - destruct (bshape (c_shape c) s) as [r|]; [|discriminate].
    destruct (leqb r s); [|discriminate]. inversion E. apply bcast_wf; auto.
Qed.

(* what broadcast_core preserves / establishes *)
Lemma broadcast_props c s c' : cl_ro c = true -> broadcast_core c s = Some c' ->
  c_shape c' = s /\ c_numer c' = c_numer c /\ is_float c' = is_float c /\
  (c_ro c = true -> c_ro c' = true \/ (s = [] /\ c_shape c <> [] /\ c_numer c ++ c_denom c = [])).
Proof.
  intros Hro E. unfold broadcast_core in E.
  destruct (leqb (c_shape c) s) eqn:E1.
  { inversion E; subst. apply leqb_eq in E1. auto. }
  destruct (is_nil s) eqn:E2.
  - apply is_nil_true in E2. subst s.
    assert (Hs : c_shape c <> []). { intro H0. rewrite H0 in E1. simpl in E1. discriminate. }
    destruct (c_size c =? 1)%Z; [|discriminate].
    destruct (is_nil (c_numer c ++ c_denom c)) eqn:E3.
    + inversion E; subst. unfold is_float. simpl. rewrite E3. simpl.
      repeat split; auto. intros _. right. apply is_nil_true in E3. auto.
    + inversion E; subst. unfold is_float. simpl. rewrite E3. simpl.
      repeat split; auto. intro Hr. left. unfold cl_ro in Hro. rewrite Hr in Hro. simpl in Hro.
      apply andb_true_iff in Hro. destruct Hro as [Hv _]. apply negb_true_iff in Hv. rewrite Hv. reflexivity.
  - destruct (bshape (c_shape c) s) as [r|]; [|discriminate].
    destruct (leqb r s); [|discriminate]. inversion E; subst. unfold is_float. simpl. auto.
Qed.

Lemma wf_core_ro t c : wf_core t c = true -> cl_ro c = true.
Proof. unfold wf_core. intro H. split_andb. auto. Qed.

Lemma as_float_props t c c1 : wf_core t c = true -> as_float_core t c = Some c1 ->
  wf_core t c1 = true /\ is_float c1 = true /\ c_shape c1 = c_shape c /\ c_numer c1 = c_numer c /\
  c_denom c1 = c_denom c.
Proof.
  intros H E. unfold as_float_core in E.
  pose proof (wf_core_vals_not_other t c H) as Hv.
  destruct (vkind (c_vals c)) eqn:K; try discriminate.
  - destruct (ci_floats (t (c_cls c))) eqn:F; [|discriminate]. inversion E; subst.
    repeat split; auto. { apply refloat_wf; auto. }
    unfold is_float. simpl. rewrite vkind_set_kind; auto.
  - destruct (ci_floats (t (c_cls c))) eqn:F; [|discriminate]. inversion E; subst.
    repeat split; auto. { apply refloat_wf; auto. }
    unfold is_float. simpl. rewrite vkind_set_kind; auto.
  - inversion E; subst. repeat split; auto. unfold is_float. rewrite K. reflexivity.
Qed.

Lemma is_float_freeze c : is_float (freeze c) = is_float c.
Proof. reflexivity. Qed.

(* U: insert_deriv establishes the derivative clauses and keeps the object well-formed *)
Theorem insert_deriv_wf t p k d p' :
  wf t p = true -> wf_core t (s_core d) = true ->
  insert_deriv t p k d = Some p' -> wf t p' = true /\ s_core p' = s_core p.
Proof.
  intros Hp Hd E. unfold insert_deriv in E.
  destruct (negb (ci_derivs (t (c_cls (s_core p))))) eqn:EDk; [discriminate|].
  apply negb_false_iff in EDk.
  destruct (negb (leqb (c_numer (s_core p)) (c_numer (s_core d)))) eqn:ENu; [discriminate|].
  apply negb_false_iff in ENu. apply leqb_eq in ENu.
  destruct (as_float_core t (s_core d)) as [d1|] eqn:EF; [|discriminate].
  destruct (as_float_props t _ _ Hd EF) as (W1 & F1 & S1 & N1 & D1).
  destruct (broadcast_core d1 (c_shape (s_core p))) as [d2|] eqn:EB; [|discriminate].
  pose proof (broadcast_wf t _ _ _ W1 EB) as W2.
  destruct (broadcast_props _ _ _ (wf_core_ro t _ W1) EB) as (S2 & N2 & F2 & _).
  set (d3 := if c_ro (s_core p) && negb (c_ro d2) then freeze d2 else d2) in *.
  assert (W3 : wf_core t d3 = true).
  { unfold d3. destruct (c_ro (s_core p) && negb (c_ro d2)); auto. apply freeze_wf; auto. }
  assert (F3 : is_float d3 = is_float d2).
  { unfold d3. destruct (c_ro (s_core p) && negb (c_ro d2)); auto. }
  assert (S3 : c_shape d3 = c_shape d2 /\ c_numer d3 = c_numer d2).
  { unfold d3. destruct (c_ro (s_core p) && negb (c_ro d2)); auto. }
  assert (R3 : c_ro (s_core p) = true -> c_ro d3 = true).
  { intro Hr. unfold d3. rewrite Hr. simpl. destruct (c_ro d2) eqn:R2; simpl; auto. }
  destruct S3 as (S3 & N3).
  inversion E; subst p'; clear E. split; [|reflexivity].
  unfold wf in *. simpl. split_andb; auto.
  - rewrite EDk. apply implb_true_r.
  - apply same_set_spec. intro x.
    match goal with H : same_set _ _ = true |- _ => rewrite same_set_spec in H; rename H into HS end.
    rewrite map_app, !in_app_iff, in_remove_key, in_remove_s. simpl. rewrite HS. tauto.
  - rewrite forallb_app. apply andb_true_iff. split.
    + apply forallb_remove_key. assumption.
    + simpl. rewrite andb_true_r. unfold wf_deriv. simpl. split_andb; auto.
      * rewrite F3, F2. exact F1.
      * rewrite S3, S2. apply leqb_refl.
      * rewrite N3, N2, N1, <- ENu. apply leqb_refl.
      * destruct (c_ro (s_core p)) eqn:Hr; simpl; auto.
Qed.

(* re-inserting a list of well-formed derivative cores of the parent's shape *)
Lemma insert_all_wf t : forall l p p',
  wf t p = true ->
  (forall kd, In kd l -> wf_core t (d_core (snd kd)) = true) ->
  insert_all t p l = Some p' -> wf t p' = true /\ s_core p' = s_core p.
Proof.
  induction l as [|[k d] l IH]; intros p p' Hp Hl E; simpl in E.
  - inversion E; subst. auto.
  - destruct (insert_deriv t p k (dsnap_as_snapshot d)) as [p1|] eqn:E1; [|discriminate].
    pose proof (Hl (k, d) (or_introl eq_refl)) as Hw. simpl in Hw.
    destruct (insert_deriv_wf t p k (dsnap_as_snapshot d) p1 Hp Hw E1) as [W1 C1].
    destruct (IH p1 p' W1) as [W2 C2]; auto.
    + intros kd Hkd. apply Hl. right. exact Hkd.
    + split; auto. congruence.
Qed.

Lemma wf_bare t c : wf_core t c = true -> wf t (bare c) = true.
Proof. intro H. unfold wf, bare. simpl. rewrite H. reflexivity. Qed.

Lemma wf_derivs_info t s : wf t s = true ->
  forall kd, In kd (s_derivs s) ->
    wf_core t (d_core (snd kd)) = true /\ c_shape (d_core (snd kd)) = c_shape (s_core s) /\
    is_float (d_core (snd kd)) = true /\ (c_ro (s_core s) = true -> c_ro (d_core (snd kd)) = true).
Proof.
  intros H kd Hkd. unfold wf in H. split_andb.
  match goal with H : forallb _ _ = true |- _ => rewrite forallb_forall in H; specialize (H kd Hkd) end.
  unfold wf_deriv in *. split_andb.
  repeat split; auto.
  - apply leqb_eq. assumption.
  - intro Hr. match goal with H : implb _ _ = true |- _ => rewrite Hr in H; exact H end.
Qed.

Lemma wf_core_of t s : wf t s = true -> wf_core t (s_core s) = true.
Proof. unfold wf. intro H. split_andb. auto. Qed.

Lemma delete_wf t s k : wf t s = true ->
  wf t (mksnap (s_core s) (remove_key k (s_derivs s)) (remove_s k (s_dattrs s))) = true.
Proof.
  intro H. unfold wf in *. simpl. split_andb; auto.
  - match goal with H : implb _ (ci_derivs _) = true |- _ => rename H into HI end.
    destruct (ci_derivs (t (c_cls (s_core s)))); [apply implb_true_r|].
    destruct (s_derivs s); simpl in *; auto. discriminate.
  - apply same_set_spec. intro x.
    match goal with H : same_set _ _ = true |- _ => rewrite same_set_spec in H; rename H into HS end.
    rewrite in_remove_key, in_remove_s, HS. tauto.
  - apply forallb_remove_key. assumption.
Qed.

Lemma bcast_derivs_wf t sh (Hsh : sh <> []) : forall l acc p',
  wf t acc = true -> (forall kd, In kd l -> wf_core t (d_core (snd kd)) = true) ->
  c_shape (s_core acc) = sh ->
  bcast_derivs t sh l acc = Some p' -> wf t p' = true.
Proof.
  induction l as [|[k d] l IH]; intros acc p' Ha Hl Hs E; simpl in E.
  - inversion E; subst; auto.
  - destruct (broadcast_core (d_core d) sh) as [dc|] eqn:EB; [|discriminate].
    destruct (insert_deriv t acc k (bare dc)) as [acc'|] eqn:EI; [|discriminate].
    pose proof (Hl (k, d) (or_introl eq_refl)) as Hw. simpl in Hw.
    pose proof (broadcast_wf t _ _ _ Hw EB) as Wdc.
    destruct (insert_deriv_wf t acc k (bare dc) acc' Ha Wdc EI) as [W1 C1].
    apply (IH acc' p'); auto.
    + intros kd Hkd. apply Hl. right. exact Hkd.
    + rewrite C1. exact Hs.
Qed.

(* U: every modelled operation maps a well-formed record to a well-formed record *)
Theorem apply_op_wf t s o s' :
  wf t s = true -> op_guard t s o = true -> apply_op t s o = Some s' -> wf t s' = true.
Proof.
  intros H G E. pose proof (wf_core_of t s H) as Hc. pose proof (wf_derivs_info t s H) as Hd.
  destruct o as [[|]| |k|k|k d| |[|]|sh]; simpl in E.
  - (* clone recursive *)
    destruct (insert_all_wf t (s_derivs s) (bare (s_core s)) s' (wf_bare t _ Hc)) as [W _]; auto.
    intros kd Hkd. destruct (Hd kd Hkd) as (A & B & _). simpl. auto.
  - inversion E; subst. apply wf_bare; auto.
  - inversion E; subst. apply wf_bare; auto.
  - destruct (c_ro (s_core s)); [discriminate|]. inversion E; subst. apply delete_wf; auto.
  - destruct (negb (mem_s k (map fst (s_derivs s)))); [inversion E; subst; auto|].
    destruct (insert_all t (bare (s_core s)) (s_derivs s)) as [s1|] eqn:E1; [|discriminate].
    destruct (insert_all_wf t (s_derivs s) (bare (s_core s)) s1 (wf_bare t _ Hc)) as [W _]; auto.
    { intros kd Hkd. destruct (Hd kd Hkd) as (A & B & _). simpl. auto. }
    inversion E; subst. apply delete_wf; auto.
  - simpl in G.
    destruct (insert_deriv_wf t s k d s' H G E) as [W _]. exact W.
  - (* as_readonly *)
    inversion E; subst; clear E. unfold wf in *. simpl. split_andb; auto.
    + apply freeze_wf; auto.
    + destruct (s_derivs s); simpl in *; auto.
    + rewrite map_map. simpl. assumption.
    + rewrite forallb_map'. apply forallb_forall. intros kd Hkd. simpl.
      match goal with H : forallb _ (s_derivs s) = true |- _ => rewrite forallb_forall in H; specialize (H kd Hkd) end.
      unfold wf_deriv in *. simpl. split_andb; auto; try (apply freeze_wf; auto); try apply implb_true_r.
  - (* copy recursive *)
    match type of E with insert_all _ _ ?ll = _ =>
      destruct (insert_all_wf t ll (bare (thaw_copy (s_core s))) s' (wf_bare t _ (thaw_wf t _ Hc)) ) as [W _]; auto end.
    intros kd Hkd. apply in_map_iff in Hkd. destruct Hkd as (kd0 & <- & Hkd0). simpl.
      destruct (Hd kd0 Hkd0) as (A & B & _). apply thaw_wf; auto.
  - inversion E; subst. apply wf_bare. apply thaw_wf; auto.
  - (* broadcast_to *)
    destruct (leqb (c_shape (s_core s)) sh); [inversion E; subst; auto|].
    destruct (is_nil sh) eqn:En; [discriminate|].
    destruct (broadcast_core (s_core s) sh) as [c'|] eqn:EB; [|discriminate].
    assert (Hsh : sh <> []). { intro H0. subst. discriminate. }
    destruct (broadcast_props _ _ _ (wf_core_ro t _ Hc) EB) as (S3 & _).
    apply (bcast_derivs_wf t sh Hsh (s_derivs s) (bare c') s'); auto.
    + apply wf_bare. eapply broadcast_wf; eauto.
    + intros kd Hkd. destruct (Hd kd Hkd) as (A & _). exact A.
Qed.

(* U: by induction over any list of modelled operations, every reachable record is well-formed *)
Theorem run_ops_wf t (Ht : table_ok t = true) : forall l s s',
  wf t s = true -> ops_guard t s l = true -> run_ops t s l = Some s' -> wf t s' = true.
Proof.
  induction l as [|o l IH]; intros s s' H G E; simpl in *.
  - inversion E; subst; auto.
  - apply andb_true_iff in G. destruct G as [G1 G2].
    destruct (apply_op t s o) as [s1|] eqn:E1; [|discriminate].
    apply (IH s1 s'); auto. eapply apply_op_wf; eauto.
Qed.

(* constructor first, then any operations *)
Theorem reachable_wf t (Ht : table_ok t = true) : forall a l s0 s,
  mk_qube t a = Some s0 -> ops_guard t s0 l = true -> run_ops t s0 l = Some s -> wf t s = true.
Proof.
  intros a l s0 s E0 G E. apply (run_ops_wf t Ht l s0 s); auto. apply (mk_qube_wf t Ht a s0 E0).
Qed.
