(* C05 model: the structural well-formedness invariant [wf] of polymath objects, defined ONCE
   here and evaluated both in the theorems (C05Lemmas.v) and - by vm_compute - on the records
   extracted from real objects by the API sweep (harness/c05.py).  Proof-free, stdlib only.

   A [snapshot] is the structural record of one object: no values, only shapes, kinds, flags.
   [why t s] lists the numbers of the clauses of the invariant that fail; [wf t s] says none does.
   The class table [t : cls -> clsinfo] is a parameter: it is REGENERATED from the class bodies of
   /repo at every run (coq/gen/Gen_classes.v) and must satisfy [table_ok]. *)
From Coq Require Import List Arith Bool ZArith String.
From PM Require Import Base.
Import ListNotations.
Close Scope string_scope.
Open Scope list_scope.
Open Scope bool_scope.

Inductive cls := CQube | CScalar | CBoolean | CVector | CVector3 | CPair | CMatrix | CMatrix3
               | CQuaternion | CPolynomial.
Definition all_cls := [CQube; CScalar; CBoolean; CVector; CVector3; CPair; CMatrix; CMatrix3;
                       CQuaternion; CPolynomial].
Inductive kind := KBool | KInt | KFloat | KOther.

Record clsinfo := mkinfo {
  ci_nrank : option nat;          (* NRANK *)
  ci_numer : option (list nat);   (* NUMER *)
  ci_floats : bool; ci_ints : bool; ci_bools : bool;   (* FLOATS_OK INTS_OK BOOLS_OK *)
  ci_units : bool; ci_derivs : bool;                   (* UNITS_OK DERIVS_OK *)
  ci_default : option (list nat)  (* shape of DEFAULT_VALUE when the class defines one *)
}.

(* value array or Python scalar; mask; *)
Inductive vrep := VArr (k : kind) (s : list nat) | VScalar (k : kind) | VOther.
Inductive mrepk := MBool (b : bool) | MArr (k : kind) (s : list nat) | MNpBool (b : bool) | MOther.

Record core := mkcore {
  c_cls : cls;
  c_shape : list nat; c_numer : list nat; c_denom : list nat; c_item : list nat;
  c_nrank : nat; c_drank : nat; c_rank : nat;
  c_size : Z; c_isize : Z; c_nsize : Z; c_dsize : Z;
  c_vals : vrep; c_mask : mrepk; c_default : vrep;
  c_units : bool;                 (* units present *)
  c_ro : bool;                    (* _readonly_ *)
  c_vw : option bool;             (* WRITEABLE of the value array (None: Python scalar) *)
  c_mw : option bool              (* WRITEABLE of the mask array (None: Python bool) *)
}.
Record dsnap := mkdsnap {
  d_core : core;
  d_has_derivs : bool;            (* the derivative carries derivatives of its own *)
  d_attr_same : bool;             (* parent.d_d<key> is parent.derivs[key] *)
  d_dattrs : list string          (* d_d* attributes of the derivative itself *)
}.
Record snapshot := mksnap {
  s_core : core;
  s_derivs : list (string * dsnap);
  s_dattrs : list string          (* the d_d* attributes of the object (prefix removed) *)
}.

(* ---------- small decidable helpers ---------- *)
Fixpoint leqb (a b : list nat) : bool :=
  match a, b with
  | [], [] => true
  | x :: a', y :: b' => (x =? y) && leqb a' b'
  | _, _ => false
  end.
Definition is_nil {A} (l : list A) : bool := match l with [] => true | _ => false end.
Definition zprod (l : list nat) : Z := fold_right (fun n acc => (Z.of_nat n * acc)%Z) 1%Z l.
Definition kind_eqb (a b : kind) : bool :=
  match a, b with KBool, KBool | KInt, KInt | KFloat, KFloat | KOther, KOther => true | _, _ => false end.
Definition cls_eqb (a b : cls) : bool :=
  match a, b with
  | CQube, CQube | CScalar, CScalar | CBoolean, CBoolean | CVector, CVector | CVector3, CVector3
  | CPair, CPair | CMatrix, CMatrix | CMatrix3, CMatrix3 | CQuaternion, CQuaternion
  | CPolynomial, CPolynomial => true
  | _, _ => false
  end.
Definition mem_s (k : string) (l : list string) : bool := existsb (String.eqb k) l.
Definition incl_s (a b : list string) : bool := forallb (fun k => mem_s k b) a.
Definition same_set (a b : list string) : bool := incl_s a b && incl_s b a.

Definition vkind (v : vrep) : kind :=
  match v with VArr k _ => k | VScalar k => k | VOther => KOther end.
Definition kind_ok (ci : clsinfo) (k : kind) : bool :=
  match k with KFloat => ci_floats ci | KInt => ci_ints ci | KBool => ci_bools ci | KOther => false end.
Definition opt_true (o : option bool) : bool := match o with Some true => true | _ => false end.

(* ---------- the invariant, clause by clause ---------- *)
(* 1: the value array's shape is shape + numerator + denominator *)
Definition cl_vals (c : core) : bool :=
  match c_vals c with
  | VArr _ s => leqb s (c_shape c ++ c_numer c ++ c_denom c)
  | VScalar _ => is_nil (c_shape c ++ c_numer c ++ c_denom c)
  | VOther => false
  end.
(* 2: the mask is a single bool or a boolean array of exactly the leading shape *)
Definition cl_mask (c : core) : bool :=
  match c_mask c with
  | MBool _ => true
  | MArr KBool s => leqb s (c_shape c)
  | _ => false
  end.
(* 3: rank / item bookkeeping *)
Definition cl_rank (c : core) : bool :=
  leqb (c_item c) (c_numer c ++ c_denom c) && (c_nrank c =? List.length (c_numer c)) &&
  (c_drank c =? List.length (c_denom c)) && (c_rank c =? c_nrank c + c_drank c).
(* 4: sizes *)
Definition cl_size (c : core) : bool :=
  (c_size c =? zprod (c_shape c))%Z && (c_isize c =? zprod (c_item c))%Z &&
  (c_nsize c =? zprod (c_numer c))%Z && (c_dsize c =? zprod (c_denom c))%Z.
(* 5: the default value has the shape of one item *)
Definition cl_default (c : core) : bool :=
  match c_default c with
  | VArr _ s => leqb s (c_item c)
  | VScalar _ => is_nil (c_item c)
  | VOther => false
  end.
(* 6: class constraints *)
Definition cl_class (t : cls -> clsinfo) (c : core) : bool :=
  let ci := t (c_cls c) in
  match ci_nrank ci with Some n => c_nrank c =? n | None => true end &&
  match ci_numer ci with Some n => leqb (c_numer c) n | None => true end &&
  kind_ok ci (vkind (c_vals c)) &&
  implb (c_units c) (ci_units ci) &&
  implb (negb (c_drank c =? 0)) (ci_derivs ci).
(* 7: a read-only object's arrays are not WRITEABLE *)
Definition cl_ro (c : core) : bool :=
  implb (c_ro c) (negb (opt_true (c_vw c)) && negb (opt_true (c_mw c))).

Definition core_clauses (t : cls -> clsinfo) (c : core) : list (nat * bool) :=
  [(1, cl_vals c); (2, cl_mask c); (3, cl_rank c); (4, cl_size c); (5, cl_default c);
   (6, cl_class t c); (7, cl_ro c)].
Definition wf_core (t : cls -> clsinfo) (c : core) : bool :=
  cl_vals c && cl_mask c && cl_rank c && cl_size c && cl_default c && cl_class t c && cl_ro c.

(* clauses about one derivative of an object with core [p] *)
Definition is_float (c : core) : bool := kind_eqb (vkind (c_vals c)) KFloat.
Definition deriv_clauses (t : cls -> clsinfo) (p : core) (d : dsnap) : list (nat * bool) :=
  map (fun nb => (10 + fst nb, snd nb)) (core_clauses t (d_core d)) ++
  [(20, is_float (d_core d));                                        (* a float object *)
   (21, leqb (c_shape (d_core d)) (c_shape p));                      (* same leading shape *)
   (22, leqb (c_numer (d_core d)) (c_numer p));                      (* same numerator *)
   (23, negb (d_has_derivs d) && is_nil (d_dattrs d));               (* no derivatives of its own *)
   (24, d_attr_same d);                                              (* reachable as d_d<key> *)
   (25, implb (c_ro p) (c_ro (d_core d)))].                          (* read-only whenever the parent is *)
Definition wf_deriv (t : cls -> clsinfo) (p : core) (d : dsnap) : bool :=
  wf_core t (d_core d) && is_float (d_core d) && leqb (c_shape (d_core d)) (c_shape p) &&
  leqb (c_numer (d_core d)) (c_numer p) && negb (d_has_derivs d) && is_nil (d_dattrs d) &&
  d_attr_same d && implb (c_ro p) (c_ro (d_core d)).

Definition snap_clauses (t : cls -> clsinfo) (s : snapshot) : list (nat * bool) :=
  core_clauses t (s_core s) ++
  [(8, implb (negb (is_nil (s_derivs s))) (ci_derivs (t (c_cls (s_core s)))));   (* derivatives only where allowed *)
   (9, same_set (map fst (s_derivs s)) (s_dattrs s))] ++                           (* d_d<key> iff key in derivs *)
  flat_map (fun kd => deriv_clauses t (s_core s) (snd kd)) (s_derivs s).

Definition wf (t : cls -> clsinfo) (s : snapshot) : bool :=
  wf_core t (s_core s) &&
  implb (negb (is_nil (s_derivs s))) (ci_derivs (t (c_cls (s_core s)))) &&
  same_set (map fst (s_derivs s)) (s_dattrs s) &&
  forallb (fun kd => wf_deriv t (s_core s) (snd kd)) (s_derivs s).

(* the failing clause numbers (diagnosis; [why t s = []] iff [wf t s = true], C05Lemmas.why_wf) *)
Definition why (t : cls -> clsinfo) (s : snapshot) : list nat :=
  map fst (filter (fun nb => negb (snd nb)) (snap_clauses t s)).

(* positions of the records that fail wf - what the monitor asks *)
Fixpoint bad_from (t : cls -> clsinfo) (i : nat) (l : list snapshot) : list nat :=
  match l with
  | [] => []
  | s :: l' => if wf t s then bad_from t (S i) l' else i :: bad_from t (S i) l'
  end.
Definition bad_records (t : cls -> clsinfo) (l : list snapshot) : list nat := bad_from t 0 l.

(* record position * 100 + failing clause number, for every failing clause of every record *)
Definition flags (t : cls -> clsinfo) (l : list snapshot) : list nat :=
  List.concat (map (fun p => map (fun c => fst p * 100 + c) (why t (snd p)))
                   (combine (seq 0 (List.length l)) l)).

(* ---------- hypotheses on the (regenerated) class table ---------- *)
Definition info_ok (ci : clsinfo) : bool :=
  match ci_numer ci with
  | Some n => match ci_nrank ci with Some r => r =? List.length n | None => false end
  | None => true
  end &&
  match ci_default ci with
  | Some d => match ci_numer ci with Some n => leqb d n | None => false end
  | None => true
  end &&
  (ci_floats ci || ci_ints ci || ci_bools ci).
Definition table_ok (t : cls -> clsinfo) : bool := forallb (fun c => info_ok (t c)) all_cls.

(* =====================================================================================
   Model of Qube.__init__'s structural part: mk_qube
   ===================================================================================== *)
(* a mask array of shape s; [v0] is the value of its element when it is 0-d (a shapeless mask given
   for a shapeless object is turned into a Python bool by _suitable_mask) *)
Inductive mask_arg := MABool (b : bool) | MAArr (s : list nat) (writeable : bool) (v0 : bool).
Record ctor_args := mkargs {
  a_cls : cls;
  a_full : list nat;             (* np.shape(values) ([] for a Python scalar or 0-d array) *)
  a_kind : kind;                 (* kind of the given data *)
  a_vw : bool;                   (* the given array is WRITEABLE *)
  a_nrank : option nat; a_drank : option nat;
  a_mask : mask_arg;
  a_units : bool;
  a_defgiven : bool              (* a default of the item's shape was supplied *)
}.

(* Qube._suitable_dtype *)
Definition suitable_kind (ci : clsinfo) (k : kind) : option kind :=
  match k with
  | KFloat => Some (if ci_floats ci then KFloat else if ci_ints ci then KInt else KBool)
  | KInt => Some (if ci_ints ci then KInt else if ci_floats ci then KFloat else KBool)
  | KBool => Some (if ci_bools ci then KBool else if ci_ints ci then KInt else KFloat)
  | KOther => None
  end.
Definition nz (o : option nat) : option nat := match o with Some 0 => None | x => x end.
Definition or_else (a b : option nat) : option nat := match a with Some x => Some x | None => b end.

Definition mk_vals (k : kind) (full : list nat) : vrep :=
  if is_nil full then VScalar k else VArr k full.

Definition mk_qube (t : cls -> clsinfo) (a : ctor_args) : option snapshot :=
  let ci := t (a_cls a) in
  let nrank := match or_else (nz (a_nrank a)) (nz (ci_nrank ci)) with Some n => n | None => 0 end in
  let drank := match nz (a_drank a) with Some n => n | None => 0 end in
  let rank := nrank + drank in
  if a_units a && negb (ci_units ci) then None else
  if match ci_nrank ci with Some n => negb (nrank =? n) | None => false end then None else
  if negb (drank =? 0) && negb (ci_derivs ci) then None else
  if List.length (a_full a) <? rank then None else
  let nn := List.length (a_full a) - rank in
  let shape := firstn nn (a_full a) in
  let numer := firstn nrank (skipn nn (a_full a)) in
  let denom := skipn nrank (skipn nn (a_full a)) in
  let item := numer ++ denom in
  match suitable_kind ci (a_kind a) with
  | None => None
  | Some k =>
    if match ci_numer ci with Some n => negb (leqb numer n) | None => false end then None else
    let isarr := negb (is_nil (a_full a)) in
    let vw := if kind_eqb k (a_kind a) then a_vw a else true in     (* a cast allocates *)
    let ro := isarr && negb vw in
    match (match a_mask a with
           | MABool b => Some (MBool b, @None bool)
           | MAArr s w v0 =>
               if is_nil s && is_nil shape then Some (MBool v0, @None bool) else
               if leqb s shape then Some (MArr KBool shape, Some (w && negb ro))
               else match bshape s shape with
                    | Some r => if leqb r shape then Some (MArr KBool shape, Some false) else None
                    | None => None
                    end
           end) with
    | None => None
    | Some (m, mw) =>
      let dshape := match ci_default ci with
                    | Some d => if (drank =? 0) && negb (a_defgiven a) then d else item
                    | None => item end in
      Some (mksnap
        (mkcore (a_cls a) shape numer denom item nrank drank rank
                (zprod shape) (zprod item) (zprod numer) (zprod denom)
                (mk_vals k (a_full a)) m (mk_vals k dshape) (a_units a) ro
                (if isarr then Some vw else None) mw)
        [] [])
    end
  end.

(* =====================================================================================
   Model of the structural operations
   ===================================================================================== *)
Definition set_kind (v : vrep) (k : kind) : vrep :=
  match v with VArr _ s => VArr k s | VScalar _ => VScalar k | VOther => VOther end.
Definition is_arr (v : vrep) : bool := match v with VArr _ _ => true | _ => false end.

(* as_float of an object without derivatives (a new object through __init__) *)
Definition refloat (c : core) : core :=
  mkcore (c_cls c) (c_shape c) (c_numer c) (c_denom c) (c_item c) (c_nrank c) (c_drank c) (c_rank c)
         (c_size c) (c_isize c) (c_nsize c) (c_dsize c)
         (set_kind (c_vals c) KFloat) (c_mask c) (set_kind (c_default c) KFloat) (c_units c)
         false (if is_arr (c_vals c) then Some true else None) (c_mw c).
Definition as_float_core (t : cls -> clsinfo) (c : core) : option core :=
  match vkind (c_vals c) with
  | KFloat => Some c
  | KOther => None
  | _ => if ci_floats (t (c_cls c)) then Some (refloat c) else None
  end.
Definition off (o : option bool) : option bool := match o with Some _ => Some false | None => None end.
(* as_readonly on the arrays of one object *)
Definition freeze (c : core) : core :=
  mkcore (c_cls c) (c_shape c) (c_numer c) (c_denom c) (c_item c) (c_nrank c) (c_drank c) (c_rank c)
         (c_size c) (c_isize c) (c_nsize c) (c_dsize c) (c_vals c) (c_mask c) (c_default c) (c_units c)
         true (off (c_vw c)) (off (c_mw c)).
Definition remask_shape (m : mrepk) (s : list nat) : mrepk :=
  match m with MArr k _ => MArr k s | x => x end.
(* broadcast_to a non-empty target shape: read-only views *)
Definition bcast_core (c : core) (s : list nat) : core :=
  mkcore (c_cls c) s (c_numer c) (c_denom c) (c_item c) (c_nrank c) (c_drank c) (c_rank c)
         (zprod s) (c_isize c) (c_nsize c) (c_dsize c)
         (VArr (vkind (c_vals c)) (s ++ c_numer c ++ c_denom c)) (remask_shape (c_mask c) s)
         (c_default c) (c_units c) true (Some false) (off (c_mw c)).
(* broadcast to (): the single element of a size-1 object; Python-scalar result for item () *)
Definition collapse_core (c : core) : core :=
  let sc := is_nil (c_numer c ++ c_denom c) in
  mkcore (c_cls c) [] (c_numer c) (c_denom c) (c_item c) (c_nrank c) (c_drank c) (c_rank c)
         1%Z (c_isize c) (c_nsize c) (c_dsize c)
         (if sc then VScalar (vkind (c_vals c)) else VArr (vkind (c_vals c)) (c_numer c ++ c_denom c))
         (MBool (match c_mask c with MBool b => b | _ => false end))
         (c_default c) (c_units c)
         (if sc then false else negb (opt_true (c_vw c)))
         (if sc then None else Some (opt_true (c_vw c))) None.
Definition broadcast_core (c : core) (s : list nat) : option core :=
  if leqb (c_shape c) s then Some c else
  if is_nil s then
    (if (c_size c =? 1)%Z then Some (collapse_core c) else None)   (* exactly one element *)
  else match bshape (c_shape c) s with
       | Some r => if leqb r s then Some (bcast_core c s) else None
       | None => None
       end.

Fixpoint remove_key (k : string) (l : list (string * dsnap)) : list (string * dsnap) :=
  match l with
  | [] => []
  | (k', d) :: l' => if String.eqb k k' then remove_key k l' else (k', d) :: remove_key k l'
  end.
Definition remove_s (k : string) (l : list string) : list string :=
  filter (fun x => negb (String.eqb k x)) l.

(* Qube.insert_deriv, in the order of the code: check class and numerator; wod; as_float; broadcast
   to the parent's shape; THEN match the parent's read-only state (the broadcast can build a new,
   writable object); store under derivs[key] and d_d<key> *)
Definition insert_deriv (t : cls -> clsinfo) (p : snapshot) (k : string) (d : snapshot) : option snapshot :=
  let pc := s_core p in
  if negb (ci_derivs (t (c_cls pc))) then None else
  if negb (leqb (c_numer pc) (c_numer (s_core d))) then None else
  match as_float_core t (s_core d) with
  | None => None
  | Some d1 =>
    match broadcast_core d1 (c_shape pc) with
    | None => None
    | Some d2 =>
      let d3 := if c_ro pc && negb (c_ro d2) then freeze d2 else d2 in
      Some (mksnap pc (remove_key k (s_derivs p) ++ [(k, mkdsnap d3 false true [])])
                   (remove_s k (s_dattrs p) ++ [k]))
    end
  end.

Definition dsnap_as_snapshot (d : dsnap) : snapshot := mksnap (d_core d) [] [].

Fixpoint insert_all (t : cls -> clsinfo) (p : snapshot) (l : list (string * dsnap)) : option snapshot :=
  match l with
  | [] => Some p
  | (k, d) :: l' =>
      match insert_deriv t p k (dsnap_as_snapshot d) with
      | Some p' => insert_all t p' l'
      | None => None
      end
  end.

Definition bare (c : core) : snapshot := mksnap c [] [].
Definition thaw_copy (c : core) : core :=     (* copy(): fresh writable arrays *)
  mkcore (c_cls c) (c_shape c) (c_numer c) (c_denom c) (c_item c) (c_nrank c) (c_drank c) (c_rank c)
         (c_size c) (c_isize c) (c_nsize c) (c_dsize c) (c_vals c) (c_mask c) (c_default c) (c_units c)
         false (match c_vw c with Some _ => Some true | None => None end)
         (match c_mw c with Some _ => Some true | None => None end).

(* broadcast_to: each derivative is broadcast (becomes read-only) and re-inserted *)
Fixpoint bcast_derivs (t : cls -> clsinfo) (sh : list nat) (l : list (string * dsnap)) (acc : snapshot)
  : option snapshot :=
  match l with
  | [] => Some acc
  | (k, d) :: l' =>
      match broadcast_core (d_core d) sh with
      | None => None
      | Some dc => match insert_deriv t acc k (bare dc) with
                   | Some acc' => bcast_derivs t sh l' acc'
                   | None => None
                   end
      end
  end.

Inductive op :=
| OClone (recursive : bool)
| OWod
| ODeleteDeriv (k : string)
| OWithoutDeriv (k : string)
| OInsertDeriv (k : string) (d : snapshot)
| OAsReadonly
| OCopy (recursive : bool)
| OBroadcast (s : list nat).

Definition apply_op (t : cls -> clsinfo) (s : snapshot) (o : op) : option snapshot :=
  match o with
  | OClone true => insert_all t (bare (s_core s)) (s_derivs s)
  | OClone false => Some (bare (s_core s))
  | OWod => Some (bare (s_core s))
  | ODeleteDeriv k =>
      if c_ro (s_core s) then None       (* require_writable *)
      else Some (mksnap (s_core s) (remove_key k (s_derivs s)) (remove_s k (s_dattrs s)))
  | OWithoutDeriv k =>
      if negb (mem_s k (map fst (s_derivs s))) then Some s
      else match insert_all t (bare (s_core s)) (s_derivs s) with
           | Some s' => Some (mksnap (s_core s') (remove_key k (s_derivs s')) (remove_s k (s_dattrs s')))
           | None => None
           end
  | OInsertDeriv k d => insert_deriv t s k d
  | OAsReadonly =>       (* freezes the arrays of the object and of every derivative, always *)
      Some (mksnap (freeze (s_core s))
                   (map (fun kd => (fst kd, mkdsnap (freeze (d_core (snd kd)))
                                                     (d_has_derivs (snd kd)) (d_attr_same (snd kd))
                                                     (d_dattrs (snd kd)))) (s_derivs s))
                   (s_dattrs s))
  | OCopy recursive =>
      if recursive
      then insert_all t (bare (thaw_copy (s_core s)))
                      (map (fun kd => (fst kd, mkdsnap (thaw_copy (d_core (snd kd))) false true [])) (s_derivs s))
      else Some (bare (thaw_copy (s_core s)))
  | OBroadcast sh =>
      if leqb (c_shape (s_core s)) sh then Some s else
      if is_nil sh then None else          (* collapse to () is not part of the modelled alphabet *)
      match broadcast_core (s_core s) sh with
      | None => None
      | Some c' => bcast_derivs t sh (s_derivs s) (bare c')
      end
  end.

Fixpoint run_ops (t : cls -> clsinfo) (s : snapshot) (l : list op) : option snapshot :=
  match l with
  | [] => Some s
  | o :: l' => match apply_op t s o with Some s' => run_ops t s' l' | None => None end
  end.

(* Guard of the preservation theorems: a derivative handed to insert_deriv must itself be a
   well-formed core (any class, kind, shape, flags; it may carry derivatives of its own). *)
Definition op_guard (t : cls -> clsinfo) (s : snapshot) (o : op) : bool :=
  match o with
  | OInsertDeriv k d => wf_core t (s_core d)
  | _ => true
  end.
Fixpoint ops_guard (t : cls -> clsinfo) (s : snapshot) (l : list op) : bool :=
  match l with
  | [] => true
  | o :: l' => op_guard t s o &&
               match apply_op t s o with Some s' => ops_guard t s' l' | None => true end
  end.

(* =====================================================================================
   decidable equality of records (for the correspondence) and the comparator
   ===================================================================================== *)
Definition vrep_eqb (a b : vrep) : bool :=
  match a, b with
  | VArr k s, VArr k' s' => kind_eqb k k' && leqb s s'
  | VScalar k, VScalar k' => kind_eqb k k'
  | VOther, VOther => true
  | _, _ => false
  end.
Definition mrepk_eqb (a b : mrepk) : bool :=
  match a, b with
  | MBool x, MBool y => Bool.eqb x y
  | MArr k s, MArr k' s' => kind_eqb k k' && leqb s s'
  | MNpBool x, MNpBool y => Bool.eqb x y
  | MOther, MOther => true
  | _, _ => false
  end.
Definition ob_eqb (a b : option bool) : bool :=
  match a, b with Some x, Some y => Bool.eqb x y | None, None => true | _, _ => false end.
Definition core_eqb (a b : core) : bool :=
  cls_eqb (c_cls a) (c_cls b) && leqb (c_shape a) (c_shape b) && leqb (c_numer a) (c_numer b) &&
  leqb (c_denom a) (c_denom b) && leqb (c_item a) (c_item b) && (c_nrank a =? c_nrank b) &&
  (c_drank a =? c_drank b) && (c_rank a =? c_rank b) && (c_size a =? c_size b)%Z &&
  (c_isize a =? c_isize b)%Z && (c_nsize a =? c_nsize b)%Z && (c_dsize a =? c_dsize b)%Z &&
  vrep_eqb (c_vals a) (c_vals b) && mrepk_eqb (c_mask a) (c_mask b) &&
  vrep_eqb (c_default a) (c_default b) && Bool.eqb (c_units a) (c_units b) &&
  Bool.eqb (c_ro a) (c_ro b) && ob_eqb (c_vw a) (c_vw b) && ob_eqb (c_mw a) (c_mw b).
Fixpoint lookup (k : string) (l : list (string * dsnap)) : option dsnap :=
  match l with
  | [] => None
  | (k', d) :: l' => if String.eqb k k' then Some d else lookup k l'
  end.
Definition dsnap_eqb (a b : dsnap) : bool :=
  core_eqb (d_core a) (d_core b) && Bool.eqb (d_has_derivs a) (d_has_derivs b) &&
  Bool.eqb (d_attr_same a) (d_attr_same b) && same_set (d_dattrs a) (d_dattrs b).
(* derivative maps are compared as maps (Python dict order is not part of the record) *)
Definition snap_eqb (a b : snapshot) : bool :=
  core_eqb (s_core a) (s_core b) &&
  (List.length (s_derivs a) =? List.length (s_derivs b)) &&
  forallb (fun kd => match lookup (fst kd) (s_derivs b) with
                     | Some d => dsnap_eqb (snd kd) d | None => false end) (s_derivs a) &&
  same_set (s_dattrs a) (s_dattrs b).
Definition osnap_eqb (a b : option snapshot) : bool :=
  match a, b with
  | Some x, Some y => snap_eqb x y
  | None, None => true
  | _, _ => false
  end.

(* correspondence cases: a constructor call or a receiver record with a list of operations,
   paired with what the implementation produced (None = it raised) *)
Inductive case :=
| KCtor (a : ctor_args)
| KOps (s : snapshot) (l : list op).
Definition obs := option snapshot.
Definition run05 (t : cls -> clsinfo) (c : case) : obs :=
  match c with
  | KCtor a => mk_qube t a
  | KOps s l => run_ops t s l
  end.
Definition obs_eqb := osnap_eqb.
Fixpoint mism_from (t : cls -> clsinfo) (i : nat) (l : list (case * obs)) : list nat :=
  match l with
  | [] => []
  | (c, o) :: l' => if obs_eqb (run05 t c) o then mism_from t (S i) l' else i :: mism_from t (S i) l'
  end.
Definition mismatches (t : cls -> clsinfo) (l : list (case * obs)) : list nat := mism_from t 0 l.
