(* C16 - proofs over the reference definitions (general facts, any length n where
   stated) and the fixed tactics that close the generated obligations
   coq/gen/obl/C16_*.v.  No axioms of our own; the real-number axioms of the
   standard library are the only ones used. *)
From Coq Require Import Reals List Arith Lia Lra Psatz Nsatz.
From PM Require Import C16Ref.
Import ListNotations.
Local Open Scope R_scope.

(* ------------------------------------------------------------------------- *)
(* tactics for the generated obligations                                      *)
(* ------------------------------------------------------------------------- *)
Ltac c16_unfold :=
  cbv beta iota zeta delta [dot norm_sq norm cross3 cross2 outer mmul mvec transpose emul ediv
      C16Ref.delta unitv proj perp det2 det3 rot9 Rx Ry Rz qmul qconj qmat vec_of mat_of sumn
      List.nth Nat.eqb] in *.
Ltac c16_hyps := repeat match goal with H : _ /\ _ |- _ => destruct H end.
Ltac c16_nz := repeat split; solve [assumption | lra | auto].
Ltac c16_ring := c16_unfold; repeat split; ring.
Ltac c16_field := c16_unfold; c16_hyps; repeat split; (field; c16_nz).
Ltac c16_pos :=
  repeat apply Rplus_le_le_0_compat; first [apply pow2_ge_0 | apply Rle_0_sqr | lra | nra].
(* nsatz does not see through [x ^ 2]; it also prints instead of failing *)
Ltac c16_nsatz := cbv beta iota delta [Rpow_def.pow] in *; solve [nsatz].
Ltac c16_sqrt_eq := c16_unfold; apply f_equal; ring.
(* make all square roots of provably equal arguments syntactically equal *)
Ltac c16_sqrt_unify :=
  c16_unfold;
  repeat match goal with
  | |- context [sqrt ?a] =>
      match goal with
      | |- context [sqrt ?b] =>
          tryif constr_eq a b then fail else
            (let H := fresh "Hs" in
             assert (H : sqrt b = sqrt a) by (apply f_equal; ring); rewrite H; clear H)
      end
  end.
(* replace every [/ x] (x <> 0 in the context) by a fresh xi with x * xi = 1 *)
Ltac c16_abs_inv :=
  unfold Rdiv in *;
  repeat match goal with
  | |- context [/ ?x] =>
      let xi := fresh "ri" in let Hi := fresh "Hi" in
      assert (Hi : x * / x = 1) by (apply Rinv_r; c16_nz);
      generalize dependent (/ x); intro xi; intros
  end.
(* innermost first: replace [sqrt e] by 1 when e = 1 follows from the context by nsatz
   (keeps the sign information a fresh variable would lose), else by a fresh r with
   r * r = e (e is a sum of squares) *)
Ltac c16_abs_sqrt :=
  repeat match goal with
  | |- context [sqrt ?e] =>
      lazymatch e with context [sqrt _] => fail | _ => idtac end;
      first [ let H1 := fresh "Hone" in
              assert (H1 : sqrt e = 1)
                by (rewrite <- sqrt_1; apply f_equal; c16_abs_inv; timeout 30 c16_nsatz);
              rewrite H1 in *; clear H1
            | let r := fresh "r" in let Hr := fresh "Hr" in
              assert (Hr : sqrt e * sqrt e = e) by (apply sqrt_sqrt; c16_pos);
              generalize dependent (sqrt e); intro r; intros ]
  end.
Ltac c16_alg := c16_unfold; c16_hyps; c16_abs_sqrt; c16_abs_inv; repeat split; c16_nsatz.

(* ------------------------------------------------------------------------- *)
(* finite sums                                                                *)
(* ------------------------------------------------------------------------- *)
Lemma sumn_ext : forall n f g, (forall i, (i < n)%nat -> f i = g i) -> sumn n f = sumn n g.
Proof.
  induction n as [|n IH]; intros f g H; simpl; [reflexivity|].
  rewrite (IH f g) by (intros i Hi; apply H; lia). rewrite H by lia. reflexivity.
Qed.

Lemma sumn_plus : forall n f g, sumn n (fun i => f i + g i) = sumn n f + sumn n g.
Proof. induction n as [|n IH]; intros; simpl; [ring|]. rewrite IH. ring. Qed.

Lemma sumn_scal : forall n c f, sumn n (fun i => c * f i) = c * sumn n f.
Proof. induction n as [|n IH]; intros; simpl; [ring|]. rewrite IH. ring. Qed.

Lemma sumn_scal_r : forall n c f, sumn n (fun i => f i * c) = sumn n f * c.
Proof. induction n as [|n IH]; intros; simpl; [ring|]. rewrite IH. ring. Qed.

Lemma sumn_zero : forall n, sumn n (fun _ => 0) = 0.
Proof. induction n as [|n IH]; simpl; [reflexivity|]. rewrite IH. ring. Qed.

Lemma sumn_swap : forall n m (f : nat -> nat -> R),
  sumn n (fun i => sumn m (fun j => f i j)) = sumn m (fun j => sumn n (fun i => f i j)).
Proof.
  induction n as [|n IH]; intros m f; simpl.
  - rewrite sumn_zero. reflexivity.
  - rewrite IH, <- sumn_plus. reflexivity.
Qed.

Lemma sumn_delta : forall n j f, (j < n)%nat -> sumn n (fun i => delta i j * f i) = f j.
Proof.
  induction n as [|n IH]; intros j f Hj; [lia|]. simpl.
  destruct (Nat.eq_dec j n) as [E|E].
  - subst j. rewrite (sumn_ext n _ (fun _ => 0)).
    + rewrite sumn_zero. unfold delta. rewrite Nat.eqb_refl. ring.
    + intros i Hi. unfold delta. destruct (Nat.eqb_spec i n) as [E2|E2]; [lia|ring].
  - rewrite IH by lia. unfold delta. destruct (Nat.eqb_spec n j) as [E2|E2]; [lia|ring].
Qed.

Lemma sumn_nonneg : forall n f, (forall i, 0 <= f i) -> 0 <= sumn n f.
Proof.
  induction n as [|n IH]; intros f H; simpl; [lra|].
  specialize (IH f H). specialize (H n). lra.
Qed.

(* ------------------------------------------------------------------------- *)
(* dot, norm, unit, perp, proj  (any length n)                                *)
(* ------------------------------------------------------------------------- *)
Lemma dot_comm : forall n a b, dot n a b = dot n b a.
Proof. intros. unfold dot. apply sumn_ext. intros. ring. Qed.

Lemma dot_plus_l : forall n a b c, dot n (fun i => a i + b i) c = dot n a c + dot n b c.
Proof. intros. unfold dot. rewrite <- sumn_plus. apply sumn_ext. intros. ring. Qed.

Lemma dot_scal_l : forall n k a b, dot n (fun i => k * a i) b = k * dot n a b.
Proof. intros. unfold dot. rewrite <- sumn_scal. apply sumn_ext. intros. ring. Qed.

Lemma norm_sq_nonneg : forall n a, 0 <= norm_sq n a.
Proof. intros. unfold norm_sq, dot. apply sumn_nonneg. intros. nra. Qed.

Lemma norm_sqr : forall n a, norm n a * norm n a = norm_sq n a.
Proof. intros. unfold norm. apply sqrt_sqrt. apply norm_sq_nonneg. Qed.

Lemma norm_nonzero : forall n a, norm_sq n a <> 0 -> norm n a <> 0.
Proof.
  intros n a H. unfold norm. pose proof (norm_sq_nonneg n a) as Hp.
  assert (0 < norm_sq n a) as Hlt by lra.
  pose proof (sqrt_lt_R0 _ Hlt). lra.
Qed.

Lemma unit_norm : forall n a, norm_sq n a <> 0 -> norm_sq n (unitv n a) = 1.
Proof.
  intros n a H. pose proof (norm_nonzero n a H) as HN. pose proof (norm_sqr n a) as HS.
  unfold norm_sq at 1. unfold dot, unitv.
  rewrite (sumn_ext n _ (fun i => a i * a i * (/ norm n a * / norm n a))).
  - rewrite sumn_scal_r. fold (dot n a a). fold (norm_sq n a). rewrite <- HS. field. exact HN.
  - intros i _. field. exact HN.
Qed.

Lemma perp_plus_proj : forall n v a i, perp n v a i + proj n v a i = v i.
Proof. intros. unfold perp. ring. Qed.

Lemma proj_parallel : forall n v a i, proj n v a i = (dot n v a / norm_sq n a) * a i
  \/ norm_sq n a = 0.
Proof.
  intros n v a i. destruct (Req_dec (norm_sq n a) 0) as [E|E]; [right; exact E|left].
  pose proof (norm_nonzero n a E) as HN. pose proof (norm_sqr n a) as HS.
  unfold proj, unitv. unfold dot at 1.
  rewrite (sumn_ext n _ (fun l => v l * a l * / norm n a)) by (intros; field; exact HN).
  rewrite sumn_scal_r. fold (dot n v a). rewrite <- HS. field. exact HN.
Qed.

Lemma perp_orth : forall n v a, norm_sq n a <> 0 -> dot n (perp n v a) a = 0.
Proof.
  intros n v a H. pose proof (norm_nonzero n a H) as HN. pose proof (norm_sqr n a) as HS.
  assert (Hpr : forall i, perp n v a i = v i + (- (dot n v a / norm_sq n a)) * a i).
  { intros i. unfold perp. destruct (proj_parallel n v a i) as [E|E]; [rewrite E; ring|contradiction]. }
  unfold dot at 1. rewrite (sumn_ext n _ (fun i => v i * a i + (- (dot n v a / norm_sq n a)) * (a i * a i))).
  - rewrite sumn_plus, sumn_scal. fold (dot n v a). fold (dot n a a). fold (norm_sq n a). field. exact H.
  - intros i _. rewrite Hpr. ring.
Qed.

(* ------------------------------------------------------------------------- *)
(* cross products                                                             *)
(* ------------------------------------------------------------------------- *)
Lemma cross3_orth_l : forall a b, dot 3 (cross3 a b) a = 0.
Proof. intros. c16_ring. Qed.
Lemma cross3_orth_r : forall a b, dot 3 (cross3 a b) b = 0.
Proof. intros. c16_ring. Qed.
Lemma cross3_anticomm : forall a b i, cross3 a b i = - cross3 b a i.
Proof. intros a b [|[|[|i]]]; c16_ring. Qed.
Lemma cross3_lagrange : forall a b,
  norm_sq 3 (cross3 a b) = norm_sq 3 a * norm_sq 3 b - dot 3 a b * dot 3 a b.
Proof. intros. c16_ring. Qed.
Lemma cross2_anticomm : forall a b, cross2 a b = - cross2 b a.
Proof. intros. c16_ring. Qed.

(* ------------------------------------------------------------------------- *)
(* matrices (any size)                                                         *)
(* ------------------------------------------------------------------------- *)
Lemma transpose_mmul : forall k A B i j,
  transpose (mmul k A B) i j = mmul k (transpose B) (transpose A) i j.
Proof. intros. unfold transpose, mmul. apply sumn_ext. intros. ring. Qed.

Lemma transpose_invol : forall A i j, transpose (transpose A) i j = A i j.
Proof. reflexivity. Qed.

Lemma mmul_assoc : forall k m A B C i j,
  mmul m (mmul k A B) C i j = mmul k A (mmul m B C) i j.
Proof.
  intros. unfold mmul.
  rewrite (sumn_ext m _ (fun l => sumn k (fun p => A i p * B p l * C l j))).
  2:{ intros l _. rewrite <- (sumn_scal_r k (C l j) (fun p => A i p * B p l)). reflexivity. }
  rewrite sumn_swap. apply sumn_ext. intros p _.
  rewrite <- sumn_scal. apply sumn_ext. intros l _. ring.
Qed.

Lemma mmul_ident_r : forall n A i j, (j < n)%nat -> mmul n A delta i j = A i j.
Proof.
  intros. unfold mmul. rewrite (sumn_ext n _ (fun l => delta l j * A i l)) by (intros; ring).
  apply sumn_delta. assumption.
Qed.

Lemma orth_rows_mmul : forall n A B, orth_rows n A -> orth_rows n B -> orth_rows n (mmul n A B).
Proof.
  intros n A B HA HB i j Hi Hj. unfold mmul at 1. unfold transpose. unfold mmul.
  transitivity (sumn n (fun p => sumn n (fun q => A i p * A j q * sumn n (fun l => B p l * B q l)))).
  { rewrite (sumn_ext n _ (fun l => sumn n (fun p => sumn n (fun q => A i p * B p l * (A j q * B q l))))).
    2:{ intros l _. rewrite <- (sumn_scal_r n _ (fun p => A i p * B p l)).
        apply sumn_ext. intros p _. rewrite <- sumn_scal. reflexivity. }
    rewrite sumn_swap. apply sumn_ext. intros p _.
    rewrite sumn_swap. apply sumn_ext. intros q _.
    rewrite <- sumn_scal. apply sumn_ext. intros l _. ring. }
  rewrite (sumn_ext n _ (fun p => A i p * A j p)).
  - apply (HA i j Hi Hj).
  - intros p Hp. rewrite (sumn_ext n _ (fun q => delta q p * (A i p * A j q))).
    + rewrite sumn_delta by assumption. reflexivity.
    + intros q Hq. pose proof (HB p q Hp Hq) as E. unfold mmul, transpose in E. rewrite E.
      unfold delta. rewrite Nat.eqb_sym. ring.
Qed.

Lemma orth_cols_mmul : forall n A B, orth_cols n A -> orth_cols n B -> orth_cols n (mmul n A B).
Proof.
  intros n A B HA HB i j Hi Hj. unfold mmul at 1. unfold transpose. unfold mmul.
  transitivity (sumn n (fun p => sumn n (fun q => B p i * B q j * sumn n (fun l => A l p * A l q)))).
  { rewrite (sumn_ext n _ (fun l => sumn n (fun p => sumn n (fun q => A l p * B p i * (A l q * B q j))))).
    2:{ intros l _. rewrite <- (sumn_scal_r n _ (fun p => A l p * B p i)).
        apply sumn_ext. intros p _. rewrite <- sumn_scal. reflexivity. }
    rewrite sumn_swap. apply sumn_ext. intros p _.
    rewrite sumn_swap. apply sumn_ext. intros q _.
    rewrite <- sumn_scal. apply sumn_ext. intros l _. ring. }
  rewrite (sumn_ext n _ (fun p => B p i * B p j)).
  - apply (HB i j Hi Hj).
  - intros p Hp. rewrite (sumn_ext n _ (fun q => delta q p * (B p i * B q j))).
    + rewrite sumn_delta by assumption. reflexivity.
    + intros q Hq. pose proof (HA p q Hp Hq) as E. unfold mmul, transpose in E. rewrite E.
      unfold delta. rewrite Nat.eqb_sym. ring.
Qed.

(* unrotate (rotate v) = v : M^T (M v) = v when the columns of M are orthonormal *)
Lemma unrotate_rotate : forall n M v i, orth_cols n M -> (i < n)%nat ->
  mvec n (transpose M) (mvec n M v) i = v i.
Proof.
  intros n M v i H Hi. unfold mvec, transpose.
  rewrite (sumn_ext n _ (fun l => sumn n (fun p => M l i * M l p * v p))).
  2:{ intros l _. rewrite <- sumn_scal. apply sumn_ext. intros. ring. }
  rewrite sumn_swap.
  rewrite (sumn_ext n _ (fun p => delta p i * v p)).
  - apply sumn_delta. assumption.
  - intros p Hp. rewrite sumn_scal_r. pose proof (H i p Hi Hp) as E. unfold mmul, transpose in E.
    rewrite E. unfold delta. rewrite Nat.eqb_sym. reflexivity.
Qed.

(* rotate (unrotate v) = v needs the rows *)
Lemma rotate_unrotate : forall n M v i, orth_rows n M -> (i < n)%nat ->
  mvec n M (mvec n (transpose M) v) i = v i.
Proof.
  intros n M v i H Hi. unfold mvec, transpose.
  rewrite (sumn_ext n _ (fun l => sumn n (fun p => M i l * M p l * v p))).
  2:{ intros l _. rewrite <- sumn_scal. apply sumn_ext. intros. ring. }
  rewrite sumn_swap.
  rewrite (sumn_ext n _ (fun p => delta p i * v p)).
  - apply sumn_delta. assumption.
  - intros p Hp. rewrite sumn_scal_r. pose proof (H i p Hi Hp) as E. unfold mmul, transpose in E.
    rewrite E. unfold delta. rewrite Nat.eqb_sym. reflexivity.
Qed.

(* a rotation preserves dot products: (M a).(M b) = a.b *)
Lemma rotate_preserves_dot : forall n M a b, orth_cols n M ->
  dot n (mvec n M a) (mvec n M b) = dot n a b.
Proof.
  intros n M a b H. unfold dot, mvec.
  transitivity (sumn n (fun p => sumn n (fun q => a p * b q * sumn n (fun l => M l p * M l q)))).
  { rewrite (sumn_ext n _ (fun l => sumn n (fun p => sumn n (fun q => M l p * a p * (M l q * b q))))).
    2:{ intros l _. rewrite <- (sumn_scal_r n _ (fun p => M l p * a p)).
        apply sumn_ext. intros p _. rewrite <- sumn_scal. reflexivity. }
    rewrite sumn_swap. apply sumn_ext. intros p _.
    rewrite sumn_swap. apply sumn_ext. intros q _.
    rewrite <- sumn_scal. apply sumn_ext. intros l _. ring. }
  apply sumn_ext. intros p Hp.
  rewrite (sumn_ext n _ (fun q => delta q p * (a p * b q))).
  - rewrite sumn_delta by assumption. reflexivity.
  - intros q Hq. pose proof (H p q Hp Hq) as E. unfold mmul, transpose in E. rewrite E.
    unfold delta. rewrite Nat.eqb_sym. ring.
Qed.

(* ------------------------------------------------------------------------- *)
(* 3x3 rotations                                                              *)
(* ------------------------------------------------------------------------- *)
Lemma det3_mmul : forall A B, det3 (mmul 3 A B) = det3 A * det3 B.
Proof. intros. c16_ring. Qed.

Lemma det3_transpose : forall A, det3 (transpose A) = det3 A.
Proof. intros. c16_ring. Qed.

Section Rows_to_cols.
  Variables a b c d e f g h i : R.
  Hypothesis H1 : a*a + b*b + c*c = 1.
  Hypothesis H2 : d*d + e*e + f*f = 1.
  Hypothesis H3 : g*g + h*h + i*i = 1.
  Hypothesis H4 : a*d + b*e + c*f = 0.
  Hypothesis H5 : a*g + b*h + c*i = 0.
  Hypothesis H6 : d*g + e*h + f*i = 0.
  Hypothesis HD : a * (e*i - f*h) - b * (d*i - f*g) + c * (d*h - e*g) = 1.
  (* the transpose is the adjugate *)
  Lemma adj00 : a = e*i - f*h. Proof. nsatz. Qed.
  Lemma adj01 : b = f*g - d*i. Proof. nsatz. Qed.
  Lemma adj02 : c = d*h - e*g. Proof. nsatz. Qed.
  Lemma adj10 : d = c*h - b*i. Proof. nsatz. Qed.
  Lemma adj11 : e = a*i - c*g. Proof. nsatz. Qed.
  Lemma adj12 : f = b*g - a*h. Proof. nsatz. Qed.
  Lemma adj20 : g = b*f - c*e. Proof. nsatz. Qed.
  Lemma adj21 : h = c*d - a*f. Proof. nsatz. Qed.
  Lemma adj22 : i = a*e - b*d. Proof. nsatz. Qed.
  Lemma rot9_of_rows : rot9 a b c d e f g h i.
  Proof.
    pose proof adj00. pose proof adj01. pose proof adj02. pose proof adj10. pose proof adj11.
    pose proof adj12. pose proof adj20. pose proof adj21. pose proof adj22.
    unfold rot9. repeat split; try assumption; nsatz.
  Qed.
End Rows_to_cols.

(* rows orthonormal and det = 1 suffice; used by every generated rotation obligation *)
Ltac c16_rot :=
  c16_unfold; c16_hyps; c16_abs_sqrt; c16_abs_inv; apply rot9_of_rows; c16_nsatz.
Ltac c16_twovec := c16_rot.
Ltac c16_q2m := first [ c16_rot | c16_alg ].

Lemma rot9_is_rot3 : forall a b c d e f g h i,
  rot9 a b c d e f g h i -> is_rot3 (mat_of [[a; b; c]; [d; e; f]; [g; h; i]]).
Proof.
  intros a b c d e f g h i [[R1 [R2 [R3 [R4 [R5 R6]]]]] [[C1 [C2 [C3 [C4 [C5 C6]]]]] D]].
  unfold is_rot3. split; [|split].
  - intros x y Hx Hy. destruct x as [|[|[|x]]]; try lia; destruct y as [|[|[|y]]]; try lia;
      c16_unfold; nra.
  - intros x y Hx Hy. destruct x as [|[|[|x]]]; try lia; destruct y as [|[|[|y]]]; try lia;
      c16_unfold; nra.
  - c16_unfold. nra.
Qed.

Lemma is_rot3_rot9 : forall M, is_rot3 M ->
  rot9 (M 0 0)%nat (M 0 1)%nat (M 0 2)%nat (M 1 0)%nat (M 1 1)%nat (M 1 2)%nat
       (M 2 0)%nat (M 2 1)%nat (M 2 2)%nat.
Proof.
  intros M [Hr [Hc Hd]].
  assert (L : forall x y, (x < 3)%nat -> (y < 3)%nat ->
     0 + M x 0%nat * M y 0%nat + M x 1%nat * M y 1%nat + M x 2%nat * M y 2%nat = delta x y).
  { intros x y Hx Hy. exact (Hr x y Hx Hy). }
  assert (K : forall x y, (x < 3)%nat -> (y < 3)%nat ->
     0 + M 0%nat x * M 0%nat y + M 1%nat x * M 1%nat y + M 2%nat x * M 2%nat y = delta x y).
  { intros x y Hx Hy. exact (Hc x y Hx Hy). }
  pose proof (L 0%nat 0%nat ltac:(lia) ltac:(lia)) as L00.
  pose proof (L 1%nat 1%nat ltac:(lia) ltac:(lia)) as L11.
  pose proof (L 2%nat 2%nat ltac:(lia) ltac:(lia)) as L22.
  pose proof (L 0%nat 1%nat ltac:(lia) ltac:(lia)) as L01.
  pose proof (L 0%nat 2%nat ltac:(lia) ltac:(lia)) as L02.
  pose proof (L 1%nat 2%nat ltac:(lia) ltac:(lia)) as L12.
  pose proof (K 0%nat 0%nat ltac:(lia) ltac:(lia)) as K00.
  pose proof (K 1%nat 1%nat ltac:(lia) ltac:(lia)) as K11.
  pose proof (K 2%nat 2%nat ltac:(lia) ltac:(lia)) as K22.
  pose proof (K 0%nat 1%nat ltac:(lia) ltac:(lia)) as K01.
  pose proof (K 0%nat 2%nat ltac:(lia) ltac:(lia)) as K02.
  pose proof (K 1%nat 2%nat ltac:(lia) ltac:(lia)) as K12.
  clear L K Hr Hc.
  cbv beta iota delta [C16Ref.delta Nat.eqb] in *. unfold det3 in Hd.
  unfold rot9. repeat split; lra.
Qed.

(* the product of two rotations is a rotation *)
Lemma is_rot3_mmul : forall A B, is_rot3 A -> is_rot3 B -> is_rot3 (mmul 3 A B).
Proof.
  intros A B [Ar [Ac Ad]] [Br [Bc Bd]]. split; [|split].
  - apply orth_rows_mmul; assumption.
  - apply orth_cols_mmul; assumption.
  - rewrite det3_mmul, Ad, Bd. ring.
Qed.

Lemma is_rot3_transpose : forall A, is_rot3 A -> is_rot3 (transpose A).
Proof.
  intros A [Ar [Ac Ad]]. split; [|split].
  - intros i j Hi Hj. exact (Ac i j Hi Hj).
  - intros i j Hi Hj. exact (Ar i j Hi Hj).
  - rewrite det3_transpose. exact Ad.
Qed.

(* axis rotations *)
Lemma Rx_rot : forall c s, c*c + s*s = 1 -> is_rot3 (Rx c s).
Proof. intros. apply rot9_is_rot3. unfold rot9. repeat split; nsatz. Qed.
Lemma Ry_rot : forall c s, c*c + s*s = 1 -> is_rot3 (Ry c s).
Proof. intros. apply rot9_is_rot3. unfold rot9. repeat split; nsatz. Qed.
Lemma Rz_rot : forall c s, c*c + s*s = 1 -> is_rot3 (Rz c s).
Proof. intros. apply rot9_is_rot3. unfold rot9. repeat split; nsatz. Qed.

Lemma cos_sin_1 : forall t, cos t * cos t + sin t * sin t = 1.
Proof. intros. pose proof (sin2_cos2 t) as H. unfold Rsqr in H. lra. Qed.

Definition Raxis (k : nat) : R -> R -> mat :=
  match k with 0%nat => Rx | 1%nat => Ry | _ => Rz end.

Lemma Raxis_rot : forall k t, is_rot3 (Raxis k (cos t) (sin t)).
Proof.
  intros k t. pose proof (cos_sin_1 t).
  destruct k as [|[|k]]; simpl; [apply Rx_rot|apply Ry_rot|apply Rz_rot]; assumption.
Qed.

(* any Euler sequence of three axis rotations is a rotation (all 24 conventions are
   instances: axes and order are arbitrary here) *)
Lemma euler_product_rot : forall k1 k2 k3 t1 t2 t3,
  is_rot3 (mmul 3 (Raxis k1 (cos t1) (sin t1))
             (mmul 3 (Raxis k2 (cos t2) (sin t2)) (Raxis k3 (cos t3) (sin t3)))).
Proof. intros. repeat apply is_rot3_mmul; apply Raxis_rot. Qed.

(* ------------------------------------------------------------------------- *)
(* quaternions                                                                 *)
(* ------------------------------------------------------------------------- *)
Lemma qmul_norm : forall p q, norm_sq 4 (qmul p q) = norm_sq 4 p * norm_sq 4 q.
Proof. intros. c16_ring. Qed.

Lemma qmul_assoc : forall p q r i, qmul (qmul p q) r i = qmul p (qmul q r) i.
Proof. intros p q r [|[|[|[|i]]]]; c16_ring. Qed.

Lemma qmul_conj : forall p,
  qmul p (qconj p) 0%nat = norm_sq 4 p /\ qmul p (qconj p) 1%nat = 0 /\
  qmul p (qconj p) 2%nat = 0 /\ qmul p (qconj p) 3%nat = 0.
Proof. intros. c16_ring. Qed.

Lemma qconj_qmul : forall p q i, qconj (qmul p q) i = qmul (qconj q) (qconj p) i.
Proof. intros p q [|[|[|[|i]]]]; c16_ring. Qed.

(* nsatz wants variables, not applications [p 0] *)
Ltac c16_atoms :=
  repeat match goal with
  | |- context [?p ?k] =>
      match type of p with vec => generalize dependent (p k); intros end
  end.

Lemma qmat_rot : forall q, norm_sq 4 q = 1 -> is_rot3 (qmat q).
Proof.
  intros q H. unfold qmat. apply rot9_is_rot3. c16_unfold. c16_atoms.
  apply rot9_of_rows; c16_nsatz.
Qed.

Lemma qmat_qmul : forall p q i j, norm_sq 4 p = 1 -> norm_sq 4 q = 1 -> (i < 3)%nat -> (j < 3)%nat ->
  qmat (qmul p q) i j = mmul 3 (qmat p) (qmat q) i j.
Proof.
  intros p q i j Hp Hq Hi Hj.
  destruct i as [|[|[|i]]]; try lia; destruct j as [|[|[|j]]]; try lia; c16_unfold;
    clear Hi Hj; c16_atoms; c16_nsatz.
Qed.

(* the rotation of a pure quaternion: q (0,v) q* = (0, qmat q . v) *)
Lemma qmat_sandwich : forall q v i, norm_sq 4 q = 1 -> (i < 3)%nat ->
  qmul (qmul q (vec_of [0; v 0%nat; v 1%nat; v 2%nat])) (qconj q) (S i) = mvec 3 (qmat q) v i.
Proof.
  intros q v i H Hi. destruct i as [|[|[|i]]]; try lia; c16_unfold; clear Hi; c16_atoms; c16_nsatz.
Qed.
