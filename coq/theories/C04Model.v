(* C04 model: values, classes, kinds and rejections of + - * / // % **, unary
   minus, abs and the Scalar math functions (qube.py __add__ ... __pow__ with the
   reflected forms and helpers, scalar.py as_scalar/__pow__/math functions,
   boolean.py, matrix.py, matrix3.py, quaternion.py operator overrides).
   Proof-free: the model must still run when a proof breaks.

   Operands are described after construction: form (polymath object, number,
   ndarray, MaskedArray, nested list), class, numeric kind, leading shape,
   numerator, denominator, integer-valued data indexed by lead ++ numer ++ denom,
   unit exponents. Result values are exact rationals (num, den); den = 0 encodes a
   non-finite float. + - * // % and non-negative powers are computed in Z; true
   division, negative powers and libm functions are ORACLE kernels read from a
   table filled by NumPy's scalar kernels (a Section variable in the proofs). *)
From Coq Require Import List Arith ZArith Bool.
From PM Require Import Base Mask.
Import ListNotations.

Inductive cls := CScalar | CBoolean | CVector | CVector3 | CPair | CMatrix | CMatrix3
               | CQuaternion | CQube.
Inductive form := FQ | FNum | FArr | FMa | FList.
Inductive kind := KBool | KInt | KFloat.
Inductive opn := OAdd | OSub | OMul | ODiv | OFloor | OMod | OPow.
Inductive uop := UNeg | UAbs | UFun (f : nat).   (* sin cos tan arcsin arccos arctan sqrt log exp *)
Inductive ek := TypeErr | ValueErr.
Definition val := (Z * Z)%type.
Definition unit3 := (Z * Z * Z)%type.

Definition cls_eqb (a b : cls) : bool :=
  match a, b with
  | CScalar, CScalar | CBoolean, CBoolean | CVector, CVector | CVector3, CVector3
  | CPair, CPair | CMatrix, CMatrix | CMatrix3, CMatrix3 | CQuaternion, CQuaternion
  | CQube, CQube => true
  | _, _ => false
  end.
Definition kind_eqb (a b : kind) : bool :=
  match a, b with KBool, KBool | KInt, KInt | KFloat, KFloat => true | _, _ => false end.
Definition form_eqb (a b : form) : bool :=
  match a, b with FQ, FQ | FNum, FNum | FArr, FArr | FMa, FMa | FList, FList => true | _, _ => false end.
Definition val_eqb (a b : val) : bool := Z.eqb (fst a) (fst b) && Z.eqb (snd a) (snd b).

Record operand := mkop { oform : form; ocls : cls; okind : kind; olead : shape;
                         onumer : shape; odenom : shape; oget : mi -> Z;
                         ounit : option unit3 }.

(* ---- class table (class constants NRANK NUMER FLOATS_OK INTS_OK BOOLS_OK UNITS_OK) ---- *)
Definition fixed_numer (c : cls) : option shape :=
  match c with
  | CScalar | CBoolean => Some [] | CVector3 => Some [3] | CPair => Some [2]
  | CMatrix3 => Some [3; 3] | CQuaternion => Some [4] | _ => None
  end.
Definition cls_nrank (c : cls) : option nat :=
  match c with
  | CScalar | CBoolean => Some 0 | CVector | CVector3 | CPair | CQuaternion => Some 1
  | CMatrix | CMatrix3 => Some 2 | CQube => None
  end.
Definition floats_ok (c : cls) : bool := negb (cls_eqb c CBoolean).
Definition ints_ok (c : cls) : bool :=
  match c with CScalar | CVector | CPair | CQube => true | _ => false end.
Definition bools_ok (c : cls) : bool := match c with CBoolean | CQube => true | _ => false end.
Definition units_ok (c : cls) : bool :=
  match c with CBoolean | CMatrix3 | CQuaternion => false | _ => true end.

(* Qube._suitable_dtype *)
Definition coerce (c : cls) (k : kind) : kind :=
  match k with
  | KFloat => if floats_ok c then KFloat else if ints_ok c then KInt else KBool
  | KInt => if ints_ok c then KInt else if floats_ok c then KFloat else KBool
  | KBool => if bools_ok c then KBool else if ints_ok c then KInt else KFloat
  end.
(* NumPy kind promotion *)
Definition promote (a b : kind) : kind :=
  match a, b with
  | KFloat, _ | _, KFloat => KFloat
  | KInt, _ | _, KInt => KInt
  | _, _ => KBool
  end.

(* ---- results ---- *)
Record result := mkres { rcls : cls; rkind : kind; rlead : shape; rnumer : shape;
                         rdenom : shape; rget : option (mi -> val) }.
Inductive outcome := Ok (r : result) | Err (e : ek).

Definition nrank (a : operand) : nat := length (onumer a).
Definition drank (a : operand) : nat := length (odenom a).
Definition is_q (a : operand) : bool := form_eqb (oform a) FQ.
Definition is_num (a : operand) : bool := form_eqb (oform a) FNum.
Definition nonempty (s : shape) : bool := match s with [] => false | _ => true end.
Definition some_unit (u : option unit3) : bool := match u with Some _ => true | None => false end.

Definition z3_eqb (u v : unit3) : bool :=
  match u, v with (a, b, c), (a', b', c') => Z.eqb a a' && Z.eqb b b' && Z.eqb c c' end.
Definition units_match (u v : option unit3) : bool :=       (* Units.can_match *)
  match u, v with Some a, Some b => z3_eqb a b | _, _ => true end.
Definition unit_or (u v : option unit3) : option unit3 := match u with Some _ => u | None => v end.
Definition unit_mul (u v : option unit3) : option unit3 :=
  match u, v with
  | None, None => None
  | Some a, None => Some a
  | None, Some b => Some b
  | Some (a, b, c), Some (a', b', c') => Some (a + a', b + b', c + c')%Z
  end.
Definition unit_div (u v : option unit3) : option unit3 :=
  match u, v with
  | None, None => None
  | Some a, None => Some a
  | None, Some (a', b', c') => Some (- a', - b', - c')%Z
  | Some (a, b, c), Some (a', b', c') => Some (a - a', b - b', c - c')%Z
  end.
Definition unitless (u : option unit3) : bool :=
  match u with None => true | Some x => z3_eqb x (0, 0, 0)%Z end.
Definition is_angle (u : option unit3) : bool :=
  match u with None => true | Some x => z3_eqb x (0, 0, 0)%Z || z3_eqb x (0, 0, 1)%Z end.

(* error of Qube._raise_unsupported_op(op, self, original_arg) *)
Definition unsup (orig : operand) : ek :=
  match oform orig with FArr | FMa | FList => ValueErr | _ => TypeErr end.

(* the constructor's checks on a freshly built result of class c *)
Definition mk (c : cls) (k : kind) (L n d : shape) (u : option unit3)
              (g : option (mi -> val)) : outcome :=
  if some_unit u && negb (units_ok c) then Err TypeErr
  else match fixed_numer c with
       | Some f => if shape_eqb f n then Ok (mkres c (coerce c k) L n d g) else Err ValueErr
       | None => Ok (mkres c (coerce c k) L n d g)
       end.

(* ---- value semantics: j ranges over ITEM positions and is never projected ---- *)
Section Values.
  Variable k : Z -> Z -> val.

  (* operands with the same items *)
  Definition ew2 (la lb L : shape) (fa fb : mi -> Z) : mi -> val :=
    fun i => let r := firstn (length L) i in let j := skipn (length L) i in
             k (fa (bproj la r ++ j)) (fb (bproj lb r ++ j)).

  (* X (numerator nx, denominator dx) combined with a numerator-less S (denominator
     ds); at most one of dx, ds is non-empty. x_left: k x s, else k s x *)
  Definition dsel (own : shape) (d : mi) : mi := match own with [] => [] | _ => d end.
  Definition scale2 (lx ls L nx dx ds : shape) (fx fs : mi -> Z) (x_left : bool) : mi -> val :=
    fun i => let r := firstn (length L) i in let j := skipn (length L) i in
             let n := firstn (length nx) j in let d := skipn (length nx) j in
             let xv := fx (bproj lx r ++ n ++ dsel dx d) in
             let sv := fs (bproj ls r ++ dsel ds d) in
             if x_left then k xv sv else k sv xv.
End Values.

Definition zsum (l : list Z) : Z := fold_right Z.add 0%Z l.
(* matrix (numerator [p; q]) times vector/matrix (numerator q :: rest) *)
Definition matmul (la lb L : shape) (q : nat) (rest da db : shape) (fa fb : mi -> Z) : mi -> val :=
  fun i => let r := firstn (length L) i in let j := skipn (length L) i in
           let row := firstn 1 j in let j' := skipn 1 j in
           let c := firstn (length rest) j' in let d := skipn (length rest) j' in
           (zsum (map (fun t => (fa (bproj la r ++ row ++ [t] ++ dsel da d)
                                 * fb (bproj lb r ++ [t] ++ c ++ dsel db d))%Z) (seq 0 q)), 1%Z).

(* ---- kernels ---- *)
Definition ktab := list (Z * Z * val).
Fixpoint lookup (t : ktab) (x y : Z) : val :=
  match t with
  | [] => (0, 0)%Z
  | (x', y', v) :: t' => if Z.eqb x x' && Z.eqb y y' then v else lookup t' x y
  end.
Definition kern (t : ktab) (o : opn) (x y : Z) : val :=
  match o with
  | OAdd => (x + y, 1)%Z
  | OSub => (x - y, 1)%Z
  | OMul => (x * y, 1)%Z
  | OFloor => (x / y, 1)%Z
  | OMod => (x mod y, 1)%Z
  | ODiv => lookup t x y
  | OPow => if Z.leb 0 y then (x ^ y, 1)%Z else lookup t x y
  end.

(* ---- conversions ---- *)
(* Boolean.as_int: a Boolean used as a number is an int Scalar *)
Definition as_int (a : operand) : operand :=
  if cls_eqb (ocls a) CBoolean
  then mkop FQ CScalar KInt (olead a) [] [] (oget a) None else a.

(* Scalar.as_scalar of a non-polymath operand: leading shape = array shape *)
Definition as_scalar (a : operand) : operand :=
  mkop FQ CScalar (coerce CScalar (okind a)) (olead a) [] [] (oget a) None.

(* as_this_type of a non-polymath operand: an object of self's class; the array
   shape is split by self's numerator and denominator ranks *)
Definition as_this (self arg : operand) : option operand :=
  let rank := nrank self + drank self in
  let sh := olead arg in
  if length sh <? rank then None
  else let nl := length sh - rank in
       let numer := firstn (nrank self) (skipn nl sh) in
       let denom := skipn (nl + nrank self) sh in
       let ok := match fixed_numer (ocls self) with
                 | Some f => shape_eqb f numer | None => true end in
       if ok then Some (mkop FQ (ocls self) (coerce (ocls self) (okind arg)) (firstn nl sh)
                             numer denom (oget arg) None)
       else None.

(* ---- + and - ---- *)
Definition q_addsub (k : Z -> Z -> val) (self arg orig : operand) (swap : bool) : outcome :=
  if negb (units_match (ounit self) (ounit arg)) then Err ValueErr
  else if negb (shape_eqb (onumer self) (onumer arg))
  then (if cls_eqb (ocls self) (ocls arg) then Err ValueErr else Err (unsup orig))
  else if negb (shape_eqb (odenom self) (odenom arg)) then Err ValueErr
  else match bshape (olead self) (olead arg) with
       | None => Err ValueErr
       | Some L =>
           let kk := if swap then (fun x y => k y x) else k in
           mk (ocls self) (promote (okind self) (okind arg)) L (onumer self) (odenom self)
              (unit_or (ounit self) (ounit arg))
              (Some (ew2 kk (olead self) (olead arg) L (oget self) (oget arg)))
       end.

(* self.__add__(arg) / self.__sub__(arg) for a polymath self (Boolean already int) *)
Definition add_method (k : Z -> Z -> val) (self arg : operand) (swap : bool) : outcome :=
  if is_num arg && Nat.eqb (nrank self + drank self) 0
  then let kk := if swap then (fun x y => k y x) else k in
       mk (ocls self) (promote (okind self) (okind arg)) (olead self) [] [] (ounit self)
          (Some (ew2 kk (olead self) [] (olead self) (oget self) (oget arg)))
  else if is_q arg then q_addsub k self (as_int arg) arg swap
  else match as_this self arg with
       | Some arg' => q_addsub k self arg' arg swap
       | None => Err (unsup arg)
       end.

Definition addsub_top (t : ktab) (o : opn) (a b : operand) : outcome :=
  let k := kern t o in
  match oform a, oform b with
  | FQ, _ => add_method k (as_int a) b false
  | FMa, FQ => Err TypeErr                 (* numpy.ma evaluates it and fails *)
  | _, FQ =>
      match o with
      | OAdd => add_method k (as_int b) a true          (* __radd__ = __add__ *)
      | _ => match as_this (as_int b) a with             (* __rsub__ *)
             | Some a' => q_addsub k a' (as_int b) b false
             | None => Err (unsup a)
             end
      end
  | _, _ => Err TypeErr
  end.

(* ---- * ---- *)
(* _mul_by_scalar / _div_by_scalar / _floordiv_by_scalar / _mod_by_scalar: arg has
   no numerator; it is aligned by rank * (1,) *)
Definition by_scalar (k : Z -> Z -> val) (o : opn) (self arg : operand) (x_left : bool) : outcome :=
  match bshape (olead self) (olead arg) with
  | None => Err ValueErr
  | Some L =>
      let kd := match o with ODiv => KFloat | _ => promote (okind self) (okind arg) end in
      let u := match o with OMul => unit_mul (ounit self) (ounit arg)
                          | _ => unit_div (ounit self) (ounit arg) end in
      let d := match odenom self with [] => odenom arg | _ => odenom self end in
      mk (ocls self) kd L (onumer self) d u
         (Some (scale2 k (olead self) (olead arg) L (onumer self) (odenom self) (odenom arg)
                       (oget self) (oget arg) x_left))
  end.

Definition by_number (k : Z -> Z -> val) (o : opn) (self num : operand) (x_left : bool) : outcome :=
  let zero := Z.eqb (oget num []) 0 in
  match o with
  | OMul => mk (ocls self) (promote (okind self) (okind num)) (olead self) (onumer self)
               (odenom self) (ounit self)
               (Some (scale2 k (olead self) [] (olead self) (onumer self) (odenom self) []
                             (oget self) (oget num) x_left))
  | _ => if zero   (* all masked, values untouched *)
         then Ok (mkres (ocls self) (okind self) (olead self) (onumer self) (odenom self) None)
         else mk (ocls self) (match o with ODiv => KFloat | _ => promote (okind self) (okind num) end)
                 (olead self) (onumer self) (odenom self) (ounit self)
                 (Some (scale2 k (olead self) [] (olead self) (onumer self) (odenom self) []
                               (oget self) (oget num) x_left))
  end.

(* Qube.dot(self, arg, -1, 0, (type(arg), type(self))) *)
Definition suitable (c : cls) (n : shape) : bool :=
  match cls_nrank c with
  | Some r => Nat.eqb r (length n) &&
              match fixed_numer c with Some f => shape_eqb f n | None => true end
  | None => true
  end.
Definition mat_product (self arg : operand) : outcome :=
  if nonempty (odenom self) && nonempty (odenom arg) then Err ValueErr
  else match onumer self, onumer arg with
       | [p; q], q' :: rest =>
           if negb (Nat.eqb q q') then Err ValueErr
           else match bshape (olead self) (olead arg) with
                | None => Err ValueErr
                | Some L =>
                    let n := p :: rest in
                    let c := if suitable (ocls arg) n then ocls arg
                             else if suitable (ocls self) n then ocls self else CQube in
                    (* Qube.cast does not hand units to a class that disallows them *)
                    mk c (promote (okind self) (okind arg)) L n (odenom self ++ odenom arg)
                       (if units_ok c then unit_mul (ounit self) (ounit arg) else None)
                       (Some (matmul (olead self) (olead arg) L q rest (odenom self) (odenom arg)
                                     (oget self) (oget arg)))
                end
       | _, _ => Err ValueErr
       end.

(* Qube.__mul__(self, arg); orig is the operand as the caller passed it *)
Definition qube_mul (k : Z -> Z -> val) (self arg : operand) : outcome :=
  if is_num arg then by_number k OMul self arg true
  else let a := if is_q arg then as_int arg else as_scalar arg in
       if nonempty (odenom self) && nonempty (odenom a) then Err ValueErr
       else if Nat.eqb (nrank a) 0 then by_scalar k OMul self a true
       else if Nat.eqb (nrank self) 0 then by_scalar k OMul a self false
       else if Nat.eqb (nrank self) 2 && (Nat.eqb (nrank a) 1 || Nat.eqb (nrank a) 2)
       then mat_product self a
       else Err (unsup arg).

(* quaternion product: values belong to C16, shapes are stated *)
Definition quat_product (a b : operand) : outcome :=
  if negb (cls_eqb (ocls b) CQuaternion) && nonempty (odenom b) then Err ValueErr
  else if nonempty (odenom a) && nonempty (odenom b) then Err ValueErr
  else match bshape (olead a) (olead b) with
       | None => Err ValueErr
       | Some L => Ok (mkres CQuaternion KFloat L [4] (odenom a ++ odenom b) None)
       end.
Definition quat_like (b : operand) : bool :=
  is_q b && (cls_eqb (ocls b) CQuaternion || shape_eqb (onumer b) [3]).

Definition self_result (b : operand) : outcome :=
  Ok (mkres (ocls b) (okind b) (olead b) (onumer b) (odenom b)
            (Some (fun i => (oget b i, 1%Z)))).

Definition mul_method (k : Z -> Z -> val) (self arg : operand) : outcome :=
  if cls_eqb (ocls self) CMatrix3
  then let a := if is_q arg then arg else as_scalar arg in
       if Nat.eqb (nrank a) 0 then self_result a      (* Matrix3 * scalar returns the scalar *)
       else qube_mul k self arg
  else if cls_eqb (ocls self) CQuaternion && quat_like arg then quat_product self arg
  else qube_mul k self arg.

Definition mul_top (t : ktab) (a b : operand) : outcome :=
  let k := kern t OMul in
  match oform a, oform b with
  | FQ, FQ =>
      (* Quaternion derives from Vector and overrides __rmul__: it is tried first *)
      if cls_eqb (ocls a) CVector && cls_eqb (ocls b) CQuaternion
      then (if shape_eqb (onumer a) [3] then quat_product a b else Err TypeErr)
      else mul_method k (as_int a) b
  | FQ, _ => mul_method k (as_int a) b
  | FMa, FQ => Err TypeErr
  | _, FQ =>
      let b' := as_int b in
      if cls_eqb (ocls b') CQuaternion then qube_mul k b' a        (* Quaternion.__rmul__ *)
      else if is_num a then by_number k OMul b' a true              (* Qube.__rmul__ *)
      else by_scalar k OMul b' (as_scalar a) true
  | _, _ => Err TypeErr
  end.

(* ---- / ---- *)
(* scalar / object with items = product with the reciprocal (inverse matrix, inverse
   rotation, reciprocal quaternion): class and shapes only *)
Definition scalar_over (a b : operand) : outcome :=
  if nonempty (odenom b) then Err ValueErr
  else if cls_eqb (ocls b) CMatrix3 then self_result a
  else if cls_eqb (ocls b) CQuaternion || cls_eqb (ocls b) CMatrix
  then match bshape (olead a) (olead b) with
       | None => Err ValueErr
       | Some L => Ok (mkres (ocls b) KFloat L (onumer b) [] None)
       end
  else Err TypeErr.

Definition qube_div (k : Z -> Z -> val) (self arg : operand) : outcome :=
  if is_num arg then by_number k ODiv self arg true
  else let a := if is_q arg then as_int arg else as_scalar arg in
       if Nat.eqb (nrank a) 0
       then (if nonempty (odenom a) then Err ValueErr else by_scalar k ODiv self a true)
       else if Nat.eqb (nrank self) 0 then scalar_over self a
       else if nonempty (odenom a) then Err ValueErr
       else if Nat.eqb (nrank self + drank self) 2 && Nat.eqb (nrank a + drank a) 2
       then match mat_product self a with      (* product with the inverse: shapes only *)
            | Ok r => Ok (mkres (rcls r) KFloat (rlead r) (rnumer r) (rdenom r) None)
            | e => e end
       else Err (unsup arg).

Definition div_top (t : ktab) (a b : operand) : outcome :=
  let k := kern t ODiv in
  match oform a, oform b with
  | FQ, _ =>
      let a' := as_int a in
      if cls_eqb (ocls a') CQuaternion && quat_like b
      then (if nonempty (odenom b) then Err ValueErr     (* norm_sq / from_parts reject it *)
            else quat_product a' b)
      else qube_div k a' b
  | FMa, FQ => Err TypeErr
  | _, FQ =>
      let b' := as_int b in
      if is_num a
      then (if Nat.eqb (nrank b') 0
            then (if nonempty (odenom b') then Err ValueErr
                  else mk CScalar KFloat (olead b') [] [] (unit_div None (ounit b'))
                          (Some (scale2 k (olead b') [] (olead b') [] [] [] (oget b') (oget a) false)))
            else scalar_over (as_scalar a) b')
      else qube_div k (as_scalar a) b'
  | _, _ => Err TypeErr
  end.

(* ---- // and % ---- *)
Definition floormod_method (k : Z -> Z -> val) (o : opn) (self arg : operand) : outcome :=
  if Nat.eqb (nrank self) 2 then Err (unsup arg)          (* Matrix rejects *)
  else if is_num arg && match o with OMod => true | _ => false end
  then by_number k OMod self arg true
  else let a := if is_q arg then as_int arg else as_scalar arg in
       if nonempty (odenom a) then Err ValueErr
       else if Nat.eqb (nrank a) 0 then by_scalar k o self a true
       else Err (unsup arg).

Definition floormod_top (t : ktab) (o : opn) (a b : operand) : outcome :=
  let k := kern t o in
  match oform a, oform b with
  | FQ, _ => floormod_method k o (as_int a) b
  | FMa, FQ => Err TypeErr
  | _, FQ =>
      let b' := as_int b in
      if Nat.eqb (nrank b') 2 then Err TypeErr
      else (* Scalar(a).__floordiv__(b): no number fast path for the converted left operand *)
           if nonempty (odenom b') then Err ValueErr
           else if Nat.eqb (nrank b') 0 then by_scalar k o (as_scalar a) b' true
           else Err (unsup a)
  | _, _ => Err TypeErr
  end.

(* ---- ** ---- *)
Definition all_nonneg (s : shape) (f : mi -> Z) : bool :=
  forallb (fun i => Z.leb 0 (f i)) (all_mi s).
Definition scalar_pow (k : Z -> Z -> val) (self expo : operand) : outcome :=
  if nonempty (odenom self) then Err ValueErr
  else if is_q expo && negb (Nat.eqb (nrank expo) 0) then Err ValueErr
  else if nonempty (odenom expo) then Err ValueErr
  else if negb (unitless (ounit expo)) then Err ValueErr
  else match bshape (olead self) (olead expo) with
       | None => Err ValueErr
       | Some L =>
           if negb (unitless (ounit self)) && nonempty (olead expo) then Err ValueErr
           else
           let ke := match okind expo with KBool => KBool | x => x end in
           let kd := match okind self, ke with
                     | KInt, KInt => if all_nonneg (olead expo) (oget expo) then KInt else KFloat
                     | KInt, KBool => KInt
                     | _, _ => KFloat
                     end in
           Ok (mkres CScalar kd L [] []
                     (Some (ew2 k (olead self) (olead expo) L (oget self) (oget expo))))
       end.

Definition ident_val (n : nat) (i : mi) : val :=
  match skipn n i with
  | [x; y] => if Nat.eqb x y then (1, 1)%Z else (0, 1)%Z
  | _ => (0, 1)%Z
  end.
Definition other_pow (self expo : operand) : outcome :=
  let e := oget expo [] in
  if nonempty (olead expo) || negb (Nat.eqb (nrank expo) 0) || nonempty (odenom expo)
  then Err (unsup expo)
  else if Z.ltb e (-15) || Z.ltb 15 e then Err ValueErr
  else if Z.eqb e 1 then self_result self
  else match nrank self with
       | 2 =>
           if nonempty (odenom self) then Err ValueErr
           else match onumer self with
                | [p; q] =>
                    if negb (Nat.eqb p q) then Err ValueErr
                    else if Z.eqb e 0
                    then Ok (mkres (ocls self) KFloat (olead self) (onumer self) []
                                   (Some (ident_val (length (olead self)))))
                    else Ok (mkres (ocls self) KFloat (olead self) (onumer self) [] None)
                | _ => Err ValueErr
                end
       | _ =>
           if cls_eqb (ocls self) CQuaternion
           then Ok (mkres CQuaternion KFloat (olead self) [4] (odenom self) None)
           else Err TypeErr
       end.

Definition pow_top (t : ktab) (a b : operand) : outcome :=
  match oform a, oform b with
  | FQ, _ =>
      let a' := as_int a in
      if Nat.eqb (nrank a') 0
      then scalar_pow (kern t OPow) a' (if is_q b then b else as_scalar b)
      else other_pow a' (if is_q b then as_int b else as_scalar b)
  | _, _ => Err TypeErr                     (* no __rpow__ *)
  end.

Definition binop (t : ktab) (o : opn) (a b : operand) : outcome :=
  match o with
  | OAdd | OSub => addsub_top t o a b
  | OMul => mul_top t a b
  | ODiv => div_top t a b
  | OFloor | OMod => floormod_top t o a b
  | OPow => pow_top t a b
  end.

(* ---- unary ---- *)
Definition unop (t : ktab) (u : uop) (a : operand) : outcome :=
  match u with
  | UNeg => let a' := as_int a in
            Ok (mkres (ocls a') (okind a') (olead a') (onumer a') (odenom a')
                      (Some (fun i => (- oget a' i, 1)%Z)))
  | UAbs => let a' := as_int a in
            match nrank a' with
            | 0 => Ok (mkres (ocls a') (okind a') (olead a') [] (odenom a')
                             (Some (fun i => (Z.abs (oget a' i), 1%Z))))
            | 1 => Ok (mkres CScalar KFloat (olead a') [] (odenom a') None)    (* norm: C16 *)
            | _ => Err TypeErr
            end
  | UFun f =>
      if nonempty (odenom a) then Err ValueErr
      else let uok := match f with
                      | 0 | 1 | 2 | 8 => is_angle (ounit a)
                      | 3 | 4 | 5 => unitless (ounit a)
                      | 6 => match ounit a with
                             | None => true
                             | Some (x, y, z) => Z.even x && Z.even y && Z.even z end
                      | _ => true
                      end in
           if negb uok then Err ValueErr
           else Ok (mkres CScalar KFloat (olead a) [] []
                          (Some (fun i => lookup t (oget a i) 0%Z)))
  end.

(* ---- Qube.broadcasted_shape over n shapes, as the loop is written ---- *)
Fixpoint upd (new sh : list nat) : option (list nat) :=
  match new, sh with
  | [], [] => Some []
  | n :: new', s :: sh' =>
      match upd new' sh' with
      | None => None
      | Some r => if n =? 1 then Some (s :: r)
                  else if s =? 1 then Some (n :: r)
                  else if s =? n then Some (n :: r) else None
      end
  | _, _ => None
  end.
Definition pad (k : nat) (s : shape) : shape := repeat 1 k ++ s.
Definition bstep (new sh : shape) : option shape :=
  let L := Nat.max (length new) (length sh) in
  upd (pad (L - length new) new) (pad (L - length sh) sh).
Definition broadcasted_shape (l : list shape) : option shape :=
  fold_left (fun acc s => match acc with None => None | Some n => bstep n s end) l (Some []).
(* the specification: NumPy's rule folded *)
Definition bshape_fold (l : list shape) : option shape :=
  fold_left (fun acc s => match acc with None => None | Some n => bshape n s end) l (Some []).

(* the constructor's split of the value-array shape by numerator / denominator rank *)
Definition split_shape (nr dr : nat) (full : shape) : shape * shape * shape :=
  let nl := length full - (nr + dr) in
  (firstn nl full, firstn nr (skipn nl full), skipn (nl + nr) full).

(* ---- observation and cases ---- *)
Inductive obs :=
| OOk (c : cls) (k : kind) (lead numer denom : shape) (vals : list (option val))
| OErr (e : ek)
| OSh (s : shape).

Definition obs_of (o : outcome) : obs :=
  match o with
  | Err e => OErr e
  | Ok r => OOk (rcls r) (rkind r) (rlead r) (rnumer r) (rdenom r)
                (match rget r with
                 | None => []
                 | Some g => map (fun i => Some (g i)) (all_mi (rlead r ++ rnumer r ++ rdenom r))
                 end)
  end.

(* model (left) against implementation (right): the implementation reports a value
   only at unmasked, defined elements; a model without values ([]) states none *)
Fixpoint vals_agree (m i : list (option val)) : bool :=
  match m, i with
  | Some x :: m', Some y :: i' => val_eqb x y && vals_agree m' i'
  | _ :: m', _ :: i' => vals_agree m' i'
  | [], [] => true
  | _, _ => false
  end.
Definition obs_eqb (m i : obs) : bool :=
  match m, i with
  | OErr _, OErr _ => true
  | OSh s, OSh s' => shape_eqb s s'
  | OOk c k l n d vm, OOk c' k' l' n' d' vi =>
      cls_eqb c c' && kind_eqb k k' && shape_eqb l l' && shape_eqb n n' && shape_eqb d d' &&
      match vm with [] => true | _ => vals_agree vm vi end
  | _, _ => false
  end.

Definition mkopL (f : form) (c : cls) (k : kind) (lead numer denom : shape) (v : list Z)
                 (u : option unit3) : operand :=
  mkop f c k lead numer denom (fun i => nth (ravel (lead ++ numer ++ denom) i) v 0%Z) u.

Inductive case04 :=
| CBin (o : opn) (a b : operand) (t : ktab)
| CUn (u : uop) (a : operand) (t : ktab)
| CBs (l : list shape).                 (* Qube.broadcasted_shape of a list of shapes *)

Definition run04 (c : case04) : obs :=
  match c with
  | CBin o a b t => obs_of (binop t o a b)
  | CUn u a t => obs_of (unop t u a)
  | CBs l => match broadcasted_shape l with Some s => OSh s | None => OErr ValueErr end
  end.

Fixpoint mism_from (k : nat) (l : list (case04 * obs)) : list nat :=
  match l with
  | [] => []
  | (c, o) :: t => if obs_eqb (run04 c) o then mism_from (S k) t else k :: mism_from (S k) t
  end.
Definition mismatches := mism_from 0.
