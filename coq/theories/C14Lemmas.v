(* C14 proofs about the model in C14Model.v. *)
From Coq Require Import List Arith ZArith Bool Lia.
From PM Require Import Base Mask C14Model.
Import ListNotations.
Arguments red_shape : simpl never.
Arguments out_shape : simpl never.
Arguments all_mi : simpl never.
Arguments merge_idx : simpl never.
Arguments bproj : simpl never.


(* --- Kleene and / or, every element, every shape, every mask representation --- *)
Lemma tvl_and_kleene a b o r :
  tvl_and a b = Some o ->
  tv_at o r = kand (tv_at a (bproj (bsh a) r)) (tv_at b (bproj (bsh b) r)).
Proof.
  unfold tvl_and. destruct (bshape (bsh a) (bsh b)) as [s|]; [|discriminate].
  intro H. inversion H; subst o; clear H.
  unfold tv_at, is_true, is_not_false; simpl.
  destruct (bmask a) as [[|]|f]; destruct (bmask b) as [[|]|g]; simpl;
    repeat match goal with
           | |- context [bval ?x ?i] => destruct (bval x i); simpl
           | |- context [f ?i] => destruct (f i); simpl
           | |- context [g ?i] => destruct (g i); simpl
           end; reflexivity.
Qed.

Lemma tvl_or_kleene a b o r :
  tvl_or a b = Some o ->
  tv_at o r = kor (tv_at a (bproj (bsh a) r)) (tv_at b (bproj (bsh b) r)).
Proof.
  unfold tvl_or. destruct (bshape (bsh a) (bsh b)) as [s|]; [|discriminate].
  intro H. inversion H; subst o; clear H.
  unfold tv_at, is_true, is_not_false; simpl.
  destruct (bmask a) as [[|]|f]; destruct (bmask b) as [[|]|g]; simpl;
    repeat match goal with
           | |- context [bval ?x ?i] => destruct (bval x i); simpl
           | |- context [f ?i] => destruct (f i); simpl
           | |- context [g ?i] => destruct (g i); simpl
           end; reflexivity.
Qed.

Lemma tvl_shape_and a b o : tvl_and a b = Some o -> bshape (bsh a) (bsh b) = Some (bsh o).
Proof.
  unfold tvl_and. destruct (bshape (bsh a) (bsh b)); [|discriminate].
  intro H; inversion H; reflexivity.
Qed.
Lemma tvl_shape_or a b o : tvl_or a b = Some o -> bshape (bsh a) (bsh b) = Some (bsh o).
Proof.
  unfold tvl_or. destruct (bshape (bsh a) (bsh b)); [|discriminate].
  intro H; inversion H; reflexivity.
Qed.

(* --- strict operators --- *)
Definition strict (f : bool -> bool -> bool) (x y : tv) : tv :=
  match x, y with
  | M, _ | _, M => M
  | T, T => if f true true then T else F
  | T, F => if f true false then T else F
  | F, T => if f false true then T else F
  | F, F => if f false false then T else F
  end.
Lemma strict2_spec f a b o r :
  strict2 f a b = Some o ->
  tv_at o r = strict f (tv_at a (bproj (bsh a) r)) (tv_at b (bproj (bsh b) r)).
Proof.
  unfold strict2. destruct (bshape (bsh a) (bsh b)); [|discriminate].
  intro H; inversion H; subst o; clear H.
  unfold tv_at; simpl. rewrite or_m_spec.
  destruct (mget (bmask a) (bproj (bsh a) r)), (mget (bmask b) (bproj (bsh b) r));
    simpl; try reflexivity;
    destruct (bval a (bproj (bsh a) r)), (bval b (bproj (bsh b) r)); simpl; reflexivity.
Qed.
Lemma q_not_spec a i :
  tv_at (q_not a) i = match tv_at a i with T => F | F => T | M => M end.
Proof. unfold tv_at, q_not; simpl. destruct (mget (bmask a) i); auto. destruct (bval a i); auto. Qed.

(* --- Kleene any / all along axes --- *)
Definition tvp (p : bool * bool) : tv := if snd p then M else if fst p then T else F.

Lemma kany_spec (l : list (bool * bool)) :
  kany (map tvp l) =
  if existsb (fun p => fst p && negb (snd p)) l then T
  else if existsb snd l then M else F.
Proof.
  unfold kany. induction l as [|[v m] l IH]; simpl; auto.
  destruct m, v; simpl; auto;
    destruct (existsb (tv_eqb T) (map tvp l));
    destruct (existsb (fun p => fst p && negb (snd p)) l); try discriminate; auto;
    destruct (forallb (tv_eqb F) (map tvp l)); destruct (existsb snd l); auto; discriminate.
Qed.
Lemma kall_spec (l : list (bool * bool)) :
  kall (map tvp l) =
  if existsb (fun p => negb (fst p) && negb (snd p)) l then F
  else if existsb snd l then M else T.
Proof.
  unfold kall. induction l as [|[v m] l IH]; simpl; auto.
  destruct m, v; simpl; auto;
    destruct (existsb (tv_eqb F) (map tvp l));
    destruct (existsb (fun p => negb (fst p) && negb (snd p)) l); try discriminate; auto;
    destruct (forallb (tv_eqb T) (map tvp l)); destruct (existsb snd l); auto; discriminate.
Qed.

Lemma any_l_map {A} (g : A -> bool) l : any_l (map g l) = existsb g l.
Proof. unfold any_l. induction l; simpl; auto. rewrite IHl. reflexivity. Qed.
Lemma all_l_map {A} (g : A -> bool) l : all_l (map g l) = forallb g l.
Proof. unfold all_l. induction l; simpl; auto. rewrite IHl. reflexivity. Qed.
Lemma forallb_negb_existsb {A} (g : A -> bool) l :
  forallb g l = negb (existsb (fun x => negb (g x)) l).
Proof. induction l; simpl; auto. rewrite IHl. destruct (g a); reflexivity. Qed.

Lemma existsb_ext {A} (g h : A -> bool) l :
  (forall x, g x = h x) -> existsb g l = existsb h l.
Proof. intro H. induction l; simpl; auto. rewrite H, IHl; reflexivity. Qed.

(* the elements of [a] that contribute to output element [o] *)
Definition contrib_tv (keep : list bool) (a : bobj) (o : mi) : list tv :=
  map (fun r => tv_at a (merge_idx keep o r)) (all_mi (red_shape (bsh a) keep)).

Lemma contrib_tv_pairs keep a o :
  contrib_tv keep a o =
  map tvp (map (fun r => (bval a (merge_idx keep o r), mget (bmask a) (merge_idx keep o r)))
               (all_mi (red_shape (bsh a) keep))).
Proof.
  unfold contrib_tv. rewrite map_map. apply map_ext. intro r. unfold tvp, tv_at; simpl.
  reflexivity.
Qed.

Lemma existsb_map {A B} (g : B -> bool) (h : A -> B) l :
  existsb g (map h l) = existsb (fun x => g (h x)) l.
Proof. induction l; simpl; auto. rewrite IHl; reflexivity. Qed.

(* array-mask representation: any number of contributors, zero included *)
Lemma tvl_any_array keep a f o :
  bsh a <> [] -> bmask a = MA f ->
  tv_at (tvl_any keep a) o = kany (contrib_tv keep a o).
Proof.
  intros Hs Hm. rewrite contrib_tv_pairs, kany_spec.
  unfold tvl_any. destruct (bsh a) as [|n0 s0] eqn:E; [congruence|]. rewrite Hm.
  unfold tv_at; simpl. unfold contrib; simpl. rewrite ?E.
  rewrite !any_l_map, !existsb_map; simpl. rewrite ?Hm; simpl.
  destruct (existsb (fun r => bval a (merge_idx keep o r) && negb (f (merge_idx keep o r))) _);
    simpl; auto.
Qed.
Lemma tvl_all_array keep a f o :
  bsh a <> [] -> bmask a = MA f ->
  tv_at (tvl_all keep a) o = kall (contrib_tv keep a o).
Proof.
  intros Hs Hm. rewrite contrib_tv_pairs, kall_spec.
  unfold tvl_all. destruct (bsh a) as [|n0 s0] eqn:E; [congruence|]. rewrite Hm.
  unfold tv_at; simpl. unfold contrib; simpl. rewrite ?E.
  rewrite !any_l_map, !all_l_map, !existsb_map; simpl. rewrite ?Hm; simpl.
  rewrite forallb_negb_existsb.
  assert (Hx : forall l,
    existsb (fun x => negb (bval a (merge_idx keep o x) || f (merge_idx keep o x))) l =
    existsb (fun r => negb (bval a (merge_idx keep o r)) && negb (f (merge_idx keep o r))) l).
  { intro l. apply existsb_ext. intros x. rewrite negb_orb. reflexivity. }
  rewrite Hx.
  destruct (existsb (fun r => negb (bval a (merge_idx keep o r)) && negb (f (merge_idx keep o r))) _);
    simpl; auto.
Qed.
(* scalar-mask representation (mask = False: nothing masked) *)
Lemma tvl_any_unmasked keep a o :
  bsh a <> [] -> bmask a = MS false ->
  tv_at (tvl_any keep a) o = kany (contrib_tv keep a o).
Proof.
  intros Hs Hm. rewrite contrib_tv_pairs, kany_spec.
  unfold tvl_any. destruct (bsh a) as [|n0 s0] eqn:E; [congruence|]. rewrite Hm.
  unfold tv_at; simpl. unfold contrib; simpl. rewrite ?E.
  rewrite !any_l_map, !existsb_map; simpl. rewrite ?Hm; simpl.
  assert (Hx : forall l, existsb (fun x => bval a (merge_idx keep o x) && true) l =
                         existsb (fun r => bval a (merge_idx keep o r)) l).
  { intro l. apply existsb_ext. intros x. apply andb_true_r. }
  rewrite Hx.
  assert (Hf : forall (l : list mi), existsb (fun _ => false) l = false).
  { induction l; simpl; auto. }
  rewrite Hf. destruct (existsb _ _); reflexivity.
Qed.
Lemma tvl_all_unmasked keep a o :
  bsh a <> [] -> bmask a = MS false ->
  tv_at (tvl_all keep a) o = kall (contrib_tv keep a o).
Proof.
  intros Hs Hm. rewrite contrib_tv_pairs, kall_spec.
  unfold tvl_all. destruct (bsh a) as [|n0 s0] eqn:E; [congruence|]. rewrite Hm.
  unfold tv_at; simpl. unfold contrib; simpl. rewrite ?E.
  rewrite !all_l_map, !existsb_map; simpl. rewrite ?Hm; simpl.
  rewrite forallb_negb_existsb.
  assert (Hx : forall l, existsb (fun x => negb (bval a (merge_idx keep o x)) && true) l =
                         existsb (fun r => negb (bval a (merge_idx keep o r))) l).
  { intro l. apply existsb_ext. intros x. apply andb_true_r. }
  rewrite Hx.
  assert (Hf : forall (l : list mi), existsb (fun _ => false) l = false).
  { induction l; simpl; auto. }
  rewrite Hf. destruct (existsb _ _); reflexivity.
Qed.
(* scalar-mask representation (mask = True): masked provided something contributes *)
Lemma tvl_any_allmasked keep a o :
  bsh a <> [] -> bmask a = MS true ->
  all_mi (red_shape (bsh a) keep) <> [] ->
  tv_at (tvl_any keep a) o = kany (contrib_tv keep a o)
  /\ tv_at (tvl_all keep a) o = kall (contrib_tv keep a o).
Proof.
  intros Hs Hm Hne. rewrite contrib_tv_pairs, kany_spec, kall_spec.
  unfold tvl_any, tvl_all. destruct (bsh a) as [|n0 s0] eqn:E; [congruence|]. rewrite Hm.
  unfold tv_at; simpl. rewrite !existsb_map; simpl. rewrite ?Hm; simpl.
  destruct (all_mi (red_shape (n0 :: s0) keep)) as [|x xs]; [congruence|]. simpl.
  rewrite !andb_false_r; simpl.
  assert (Hf : forall (g : mi -> bool) (l : list mi),
             existsb (fun x => g x && false) l = false).
  { intros g l0; induction l0; simpl; auto. rewrite andb_false_r; auto. }
  rewrite !Hf. split; reflexivity.
Qed.
(* a shapeless object is its own any/all *)
Lemma tvl_shapeless keep a : bsh a = [] -> tvl_any keep a = a /\ tvl_all keep a = a.
Proof. intro H. unfold tvl_any, tvl_all. rewrite H. split; reflexivity. Qed.

(* --- any/all treat masked elements as absent --- *)
Definition unmasked_vals (keep : list bool) (a : bobj) (o : mi) : list bool :=
  map (fun r => bval a (merge_idx keep o r))
      (filter (fun r => negb (mget (bmask a) (merge_idx keep o r)))
              (all_mi (red_shape (bsh a) keep))).
Lemma existsb_filter {A} (p g : A -> bool) l :
  existsb g (filter p l) = existsb (fun x => g x && p x) l.
Proof. induction l as [|x l IH]; simpl; auto. destruct (p x); simpl; rewrite IH;
       [rewrite andb_true_r|rewrite andb_false_r]; reflexivity. Qed.
Lemma q_any_array keep a f o :
  bsh a <> [] -> bmask a = MA f ->
  mget (bmask (q_any keep a)) o
    = forallb (fun r => f (merge_idx keep o r)) (all_mi (red_shape (bsh a) keep))
  /\ bval (q_any keep a) o = any_l (unmasked_vals keep a o).
Proof.
  intros Hs Hm. unfold q_any. destruct (bsh a) as [|n0 s0] eqn:E; [congruence|]. rewrite Hm. simpl.
  unfold contrib; simpl. rewrite all_l_map, any_l_map, ?E, ?Hm. simpl. split; [reflexivity|].
  unfold unmasked_vals. rewrite any_l_map, existsb_filter. rewrite E, Hm. reflexivity.
Qed.
Lemma q_all_array keep a f o :
  bsh a <> [] -> bmask a = MA f ->
  mget (bmask (q_all keep a)) o
    = forallb (fun r => f (merge_idx keep o r)) (all_mi (red_shape (bsh a) keep))
  /\ bval (q_all keep a) o = all_l (unmasked_vals keep a o).
Proof.
  intros Hs Hm. unfold q_all. destruct (bsh a) as [|n0 s0] eqn:E; [congruence|]. rewrite Hm. simpl.
  unfold contrib; simpl. rewrite !all_l_map, ?E, ?Hm. simpl. split; [reflexivity|].
  unfold unmasked_vals. rewrite all_l_map, E, Hm. simpl.
  generalize (all_mi (red_shape (n0 :: s0) keep)). intro L.
  induction L as [|x L IH]; simpl; auto.
  destruct (f (merge_idx keep o x)); simpl; rewrite IH.
  - rewrite orb_true_r. reflexivity.
  - rewrite orb_false_r. reflexivity.
Qed.

(* --- equality laws --- *)
Lemma list_eqb_refl l : list_eqb l l = true.
Proof. induction l; simpl; auto. rewrite Z.eqb_refl; auto. Qed.
Lemma list_eqb_sym a : forall b, list_eqb a b = list_eqb b a.
Proof. induction a as [|x a IH]; intros [|y b]; simpl; auto. rewrite Z.eqb_sym, IH; auto. Qed.
Lemma shape_eqb_sym a : forall b, shape_eqb a b = shape_eqb b a.
Proof. induction a as [|x a IH]; intros [|y b]; simpl; auto. rewrite Nat.eqb_sym, IH; auto. Qed.
Lemma unit_match_sym u v : unit_match u v = unit_match v u.
Proof.
  destruct u as [[[a b] c]|], v as [[[a' b'] c']|]; simpl; auto.
  rewrite (Z.eqb_sym a), (Z.eqb_sym b), (Z.eqb_sym c); reflexivity.
Qed.
Lemma bshape_rev_comm a : forall b, bshape_rev a b = bshape_rev b a.
Proof.
  induction a as [|x a IH]; intros [|y b]; simpl; auto.
  rewrite IH. destruct (bshape_rev b a); auto.
  rewrite (Nat.eqb_sym y x).
  destruct (Nat.eqb_spec x y); [subst; reflexivity|].
  destruct (Nat.eqb_spec x 1), (Nat.eqb_spec y 1); subst; try reflexivity; congruence.
Qed.
Lemma bshape_comm a b : bshape a b = bshape b a.
Proof. unfold bshape. rewrite bshape_rev_comm. reflexivity. Qed.
Lemma compat_sym a b : compat a b = compat b a.
Proof. unfold compat. rewrite unit_match_sym, shape_eqb_sym, bshape_comm. reflexivity. Qed.

Lemma eq_ne_complement a b r : ne_at a b r = negb (eq_at a b r).
Proof.
  unfold ne_at, eq_at.
  destruct (mget (nmask a) (bproj (nsh a) r)), (mget (nmask b) (bproj (nsh b) r)); simpl; auto.
Qed.
Lemma eq_at_sym a b r : eq_at a b r = eq_at b a r.
Proof.
  unfold eq_at. rewrite list_eqb_sym, xorb_comm, andb_comm. reflexivity.
Qed.
Lemma eq_at_refl a r : eq_at a a r = true.
Proof. unfold eq_at. rewrite xorb_nilpotent, list_eqb_refl.
       destruct (mget (nmask a) (bproj (nsh a) r)); auto. Qed.
Lemma eq_both_masked a b r :
  mget (nmask a) (bproj (nsh a) r) = true -> mget (nmask b) (bproj (nsh b) r) = true ->
  eq_at a b r = true.
Proof. intros H1 H2. unfold eq_at. rewrite H1, H2. reflexivity. Qed.
Lemma eq_one_masked a b r :
  mget (nmask a) (bproj (nsh a) r) <> mget (nmask b) (bproj (nsh b) r) -> eq_at a b r = false.
Proof. intro H. unfold eq_at.
       destruct (mget (nmask a) (bproj (nsh a) r)), (mget (nmask b) (bproj (nsh b) r));
         simpl; congruence. Qed.
Lemma eq_whole_items a b r :
  mget (nmask a) (bproj (nsh a) r) = false -> mget (nmask b) (bproj (nsh b) r) = false ->
  eq_at a b r = list_eqb (nval a (bproj (nsh a) r)) (nval b (bproj (nsh b) r)).
Proof. intros H1 H2. unfold eq_at. rewrite H1, H2. reflexivity. Qed.

Definition cneg (c : cres) : cres :=
  match c with
  | CBool b => CBool (negb b)
  | CObj o => CObj (mkb (bsh o) (fun r => negb (bval o r)) (bmask o))
  | CErr => CErr
  end.
Definition cres_ext (c d : cres) : Prop :=
  match c, d with
  | CBool x, CBool y => x = y
  | CObj o, CObj p => bsh o = bsh p /\ bmask o = bmask p /\ forall r, bval o r = bval p r
  | CErr, CErr => True
  | _, _ => False
  end.
Lemma q_ne_is_not_eq a b : cres_ext (q_ne a b) (cneg (q_eq a b)).
Proof.
  unfold q_ne, q_eq. destruct (compat a b) as [[|n s]|]; simpl; auto.
  - apply eq_ne_complement.
  - repeat split. intro r. apply eq_ne_complement.
Qed.
Lemma q_eq_sym a b : cres_ext (q_eq a b) (q_eq b a).
Proof.
  unfold q_eq. rewrite (compat_sym b a). destruct (compat a b) as [[|n s]|]; simpl; auto.
  - apply eq_at_sym.
  - repeat split. intro r. apply eq_at_sym.
Qed.
Lemma q_eq_never_errors a b : q_eq a b <> CErr /\ q_ne a b <> CErr.
Proof. unfold q_eq, q_ne. destruct (compat a b) as [[|n s]|]; split; discriminate. Qed.
Lemma q_eq_incompatible a b : compat a b = None -> q_eq a b = CBool false /\ q_ne a b = CBool true.
Proof. intro H. unfold q_eq, q_ne. rewrite H. split; reflexivity. Qed.

(* --- ordering: False wherever either side is masked --- *)
Lemma ord_masked_false c a b r :
  mget (nmask a) (bproj (nsh a) r) = true \/ mget (nmask b) (bproj (nsh b) r) = true ->
  ord_at c a b r = false.
Proof.
  intros [H|H]; unfold ord_at; rewrite H; simpl.
  - rewrite andb_false_r. reflexivity.
  - rewrite andb_false_r. reflexivity.
Qed.
Lemma ord_unmasked c a b r :
  mget (nmask a) (bproj (nsh a) r) = false -> mget (nmask b) (bproj (nsh b) r) = false ->
  ord_at c a b r = cmpz c (hd0 (nval a (bproj (nsh a) r))) (hd0 (nval b (bproj (nsh b) r))).
Proof. intros H1 H2. unfold ord_at. rewrite H1, H2. simpl. rewrite !andb_true_r. reflexivity. Qed.

(* --- tvl comparisons: masked iff either side is --- *)
Lemma tvl_cmp_mask c a b o r :
  tvl_cmp c a b = Some o ->
  mget (bmask o) r = mget (nmask a) (bproj (nsh a) r) || mget (nmask b) (bproj (nsh b) r).
Proof.
  unfold tvl_cmp. destruct (as_obj c); [|discriminate]. intro H; inversion H; subst o; simpl.
  unfold nmask_or. apply or_m_spec.
Qed.
Lemma tvl_cmp_value c a b o r :
  tvl_cmp c a b = Some o -> exists o', as_obj c = Some o' /\ bval o r = bval o' r.
Proof.
  unfold tvl_cmp. destruct (as_obj c) as [o'|]; [|discriminate].
  intro H; inversion H; subst o; simpl. exists o'. auto.
Qed.

(* --- truth value of a comparison --- *)
Lemma truth_of_eq a b s :
  compat a b = Some s ->
  truth_all (q_eq a b) = Some (forallb (eq_at a b) (all_mi s)).
Proof.
  intro H. unfold q_eq. rewrite H. destruct s as [|n s]; simpl.
  - rewrite andb_true_r. reflexivity.
  - rewrite all_l_map. reflexivity.
Qed.
Lemma truth_of_ne a b s :
  compat a b = Some s ->
  truth_any (q_ne a b) = Some (existsb (ne_at a b) (all_mi s)).
Proof.
  intro H. unfold q_ne. rewrite H. destruct s as [|n s]; simpl.
  - rewrite orb_false_r. reflexivity.
  - rewrite any_l_map. reflexivity.
Qed.
