(* C03 lemmas: non-interference of every modelled operation and of every program. *)
From Coq Require Import List Arith ZArith Bool Lia.
From PM Require Import C03Model.
Import ListNotations.
Open Scope Z_scope.

(* two elements are indistinguishable: same mask, and the same number unless masked *)
Definition cell_equiv (c d : cell) : Prop := cm c = cm d /\ (cm c = false -> cv c = cv d).
(* two arrays are indistinguishable: same length, indistinguishable elements *)
Definition obs_equiv (a b : marr) : Prop :=
  len a = len b /\ forall i, (i < len a)%nat -> cell_equiv (at_ a i) (at_ b i).
Definition outcome_equiv (x y : outcome) : Prop :=
  match x, y with
  | Ok a, Ok b => obs_equiv a b
  | Err e, Err f => e = f
  | _, _ => False
  end.

Lemma cell_equiv_refl c : cell_equiv c c.
Proof. split; auto. Qed.
Lemma obs_equiv_refl a : obs_equiv a a.
Proof. split; auto. intros. apply cell_equiv_refl. Qed.
Lemma cell_equiv_masked v w : cell_equiv (true, v) (true, w).
Proof. split; simpl; auto. discriminate. Qed.

Definition resp1 (f : cell -> cell) : Prop :=
  forall x x', cell_equiv x x' -> cell_equiv (f x) (f x').
Definition resp2 (f : cell -> cell -> cell) : Prop :=
  forall x x' y y', cell_equiv x x' -> cell_equiv y y' -> cell_equiv (f x y) (f x' y').

Ltac vis :=
  repeat match goal with
  | H : false = false -> _ |- _ => specialize (H eq_refl)
  | H : true = false -> _ |- _ => clear H
  end.
Ltac cells1 :=
  intros [mx vx] [mx' vx'] [H1 H2]; unfold cell_equiv, cm, cv in *; simpl in *; subst mx;
  destruct mx'; vis; subst.
Ltac cells2 :=
  intros [mx vx] [mx' vx'] [my vy] [my' vy'] [H1 H2] [H3 H4]; unfold cell_equiv, cm, cv in *;
  simpl in *; subst mx my; destruct mx', my'; vis; subst.

Lemma resp_neg : resp1 c_neg.
Proof. cells1; unfold c_neg, cm, cv; simpl; split; auto; discriminate. Qed.
Lemma resp_sanit0 : resp1 c_sanit0.
Proof.
  cells1; unfold c_sanit0, cm, cv; simpl.
  - destruct (vx =? 0), (vx' =? 0); simpl; split; auto; discriminate.
  - destruct (vx' =? 0); simpl; split; auto.
Qed.
Lemma resp_shrink_rt : resp1 c_shrink_rt.
Proof. cells1; unfold c_shrink_rt, cm; simpl; split; auto. Qed.

Lemma resp_arith f : resp2 (c_arith f).
Proof. cells2; unfold c_arith, cm, cv; simpl; split; auto; discriminate. Qed.
Lemma resp_floordiv : resp2 c_floordiv.
Proof.
  cells2; unfold c_floordiv, c_sanit0, cm, cv; simpl;
    try (destruct (vy =? 0), (vy' =? 0); simpl; split; auto; discriminate);
    try (destruct (vy' =? 0); simpl; split; auto; discriminate).
Qed.
Lemma resp_eq : resp2 c_eq.
Proof. cells2; unfold c_eq, cm, cv; simpl; split; auto. Qed.
Lemma resp_lt : resp2 c_lt.
Proof.
  cells2; unfold c_lt, cm, cv; simpl; split; auto;
    try (intros _; rewrite ?andb_false_r; reflexivity).
Qed.
Lemma resp_maximum : resp2 c_maximum.
Proof. cells2; unfold c_maximum, cm, cv; simpl; split; auto; discriminate. Qed.
Lemma resp_maskwhere : resp2 c_maskwhere.
Proof.
  cells2; unfold c_maskwhere, cm, cv; simpl; split; auto; try discriminate.
Qed.

(* ---- element-wise combinators ---- *)
Lemma map1_ni f a a' : resp1 f -> obs_equiv a a' -> obs_equiv (map1 f a) (map1 f a').
Proof.
  intros Hf [Hl He]. split; simpl; [auto|]. intros i Hi. apply Hf. apply He. exact Hi.
Qed.

Lemma bget_equiv a a' i : obs_equiv a a' -> (len a = 1%nat \/ (i < len a)%nat) ->
  cell_equiv (bget a i) (bget a' i).
Proof.
  intros [Hl He] Hi. unfold bget. rewrite <- Hl.
  destruct (Nat.eqb_spec (len a) 1) as [E|E].
  - apply He. lia.
  - apply He. lia.
Qed.
Lemma blen_bound a b n i : blen a b = Some n -> (i < n)%nat ->
  (len a = 1%nat \/ (i < len a)%nat) /\ (len b = 1%nat \/ (i < len b)%nat).
Proof.
  unfold blen. intros H Hi.
  destruct (Nat.eqb_spec (len a) (len b)) as [E1|E1].
  - inversion H; subst. split; right; lia.
  - destruct (Nat.eqb_spec (len a) 1) as [E2|E2].
    + inversion H; subst. split; [left; auto | right; lia].
    + destruct (Nat.eqb_spec (len b) 1) as [E3|E3]; [|discriminate].
      inversion H; subst. split; [right; lia | left; auto].
Qed.
Lemma blen_eq a a' b b' : obs_equiv a a' -> obs_equiv b b' -> blen a b = blen a' b'.
Proof. intros [Ha _] [Hb _]. unfold blen. rewrite Ha, Hb. reflexivity. Qed.

Lemma zip_ni f a a' b b' : resp2 f -> obs_equiv a a' -> obs_equiv b b' ->
  outcome_equiv (zip f a b) (zip f a' b').
Proof.
  intros Hf Ha Hb. unfold zip. rewrite <- (blen_eq a a' b b' Ha Hb).
  destruct (blen a b) as [n|] eqn:E; simpl; auto.
  split; simpl; [auto|]. intros i Hi.
  destruct (blen_bound a b n i E Hi) as [Ba Bb].
  apply Hf; apply bget_equiv; auto.
Qed.

(* ---- lists of elements ---- *)
Lemma cells_equiv_gen (f g : nat -> cell) n : forall s,
  (forall i, (s <= i < s + n)%nat -> cell_equiv (f i) (g i)) ->
  Forall2 cell_equiv (map f (seq s n)) (map g (seq s n)).
Proof.
  induction n as [|n IH]; intros s H; simpl; constructor.
  - apply H. lia.
  - apply IH. intros i Hi. apply H. lia.
Qed.
Lemma cells_equiv a a' : obs_equiv a a' -> Forall2 cell_equiv (cells a) (cells a').
Proof.
  intros [Hl He]. unfold cells. rewrite <- Hl. apply cells_equiv_gen.
  intros i Hi. apply He. lia.
Qed.

Lemma allm_eq l l' : Forall2 cell_equiv l l' -> allm l = allm l'.
Proof.
  induction 1 as [|c d l l' [Hm _] _ IH]; simpl; auto. rewrite Hm, IH. reflexivity.
Qed.
Lemma sanit_eq fill l l' : Forall2 cell_equiv l l' -> sanit fill l = sanit fill l'.
Proof.
  induction 1 as [|c d l l' [Hm Hv] _ IH]; simpl; auto. rewrite IH. f_equal.
  rewrite <- Hm. destruct (cm c); auto.
Qed.
Lemma unm_eq l l' : Forall2 cell_equiv l l' -> unm l = unm l'.
Proof.
  unfold unm. induction 1 as [|c d l l' [Hm Hv] _ IH]; simpl; auto.
  rewrite <- Hm. destruct (cm c); simpl; auto. rewrite IH, Hv; auto.
Qed.
Lemma count_unm_eq l l' : Forall2 cell_equiv l l' -> count_unm l = count_unm l'.
Proof.
  unfold count_unm. induction 1 as [|c d l l' [Hm _] _ IH]; simpl; auto.
  simpl in IH. rewrite <- Hm. f_equal. exact IH.
Qed.
Lemma argbest_eq better l l' : Forall2 cell_equiv l l' ->
  forall i best, argbest better l i best = argbest better l' i best.
Proof.
  induction 1 as [|c d l l' [Hm Hv] _ IH]; intros i best; simpl; auto.
  rewrite <- Hm. destruct (cm c).
  - apply IH.
  - rewrite <- (Hv eq_refl). apply IH.
Qed.

Definition respR (r : list cell -> cell) : Prop :=
  forall l l', Forall2 cell_equiv l l' -> cell_equiv (r l) (r l').
Ltac red_tac H :=
  rewrite <- (allm_eq _ _ H); match goal with |- context [allm ?l] => destruct (allm l) end;
  [apply cell_equiv_masked | ].
Lemma resp_sum : respR r_sum.
Proof.
  intros l l' H. unfold r_sum. red_tac H. rewrite (sanit_eq 0 _ _ H). apply cell_equiv_refl.
Qed.
Lemma resp_max : respR r_max.
Proof.
  intros l l' H. unfold r_max. red_tac H. rewrite (sanit_eq MINV _ _ H). apply cell_equiv_refl.
Qed.
Lemma resp_min : respR r_min.
Proof.
  intros l l' H. unfold r_min. red_tac H. rewrite (sanit_eq MAXV _ _ H). apply cell_equiv_refl.
Qed.
Lemma resp_mean : respR r_mean.
Proof.
  intros l l' H. unfold r_mean. red_tac H.
  rewrite (sanit_eq 0 _ _ H), (count_unm_eq _ _ H). apply cell_equiv_refl.
Qed.
Lemma resp_any : respR r_any.
Proof.
  intros l l' H. unfold r_any. red_tac H. rewrite (sanit_eq 0 _ _ H). apply cell_equiv_refl.
Qed.
Lemma resp_all : respR r_all.
Proof.
  intros l l' H. unfold r_all. red_tac H. rewrite (sanit_eq 1 _ _ H). apply cell_equiv_refl.
Qed.
Lemma resp_arg better : respR (r_arg better).
Proof.
  intros l l' H. unfold r_arg. rewrite (argbest_eq better _ _ H). apply cell_equiv_refl.
Qed.

Lemma single_ni c d : cell_equiv c d -> obs_equiv (single c) (single d).
Proof. intro H. split; simpl; [auto|]. intros i _. exact H. Qed.
Lemma reduce_ni r a a' : respR r -> obs_equiv a a' -> obs_equiv (reduce r a) (reduce r a').
Proof. intros Hr H. unfold reduce. apply single_ni. apply Hr. apply cells_equiv. exact H. Qed.

Lemma sort_ni a a' : obs_equiv a a' -> obs_equiv (q_sort a) (q_sort a').
Proof.
  intro H. pose proof (cells_equiv _ _ H) as Hc. destruct H as [Hl _].
  unfold q_sort. rewrite (unm_eq _ _ Hc). split; simpl; [auto|].
  intros i _. apply cell_equiv_refl.
Qed.

Lemma shrink_rt_ni a a' : obs_equiv a a' ->
  obs_equiv (if allm (cells a) then single (true, 1) else map1 c_shrink_rt a)
            (if allm (cells a') then single (true, 1) else map1 c_shrink_rt a').
Proof.
  intro H. rewrite <- (allm_eq _ _ (cells_equiv _ _ H)).
  destruct (allm (cells a)).
  - apply obs_equiv_refl.
  - apply map1_ni; auto. exact resp_shrink_rt.
Qed.

(* ---- indexing by a masked index array ---- *)
Lemma getitem_ni a a' idx idx' : obs_equiv a a' -> obs_equiv idx idx' ->
  outcome_equiv (q_getitem a idx) (q_getitem a' idx').
Proof.
  intros [Hl He] [Hil Hie]. unfold q_getitem. simpl. split; simpl; [auto|].
  intros i Hi. specialize (Hie i Hi). destruct Hie as [Hm Hv].
  rewrite <- Hl, <- Hm.
  assert (Hk : (if cm (at_ idx i) then 0 else cv (at_ idx i))
             = (if cm (at_ idx i) then 0 else cv (at_ idx' i))).
  { destruct (cm (at_ idx i)); auto. }
  rewrite <- Hk. clear Hk.
  set (k := if cm (at_ idx i) then 0 else cv (at_ idx i)).
  set (n := Z.of_nat (len a)).
  destruct (Z.ltb_spec k (- n)) as [L1|L1]; simpl.
  { rewrite !orb_true_r. simpl. apply cell_equiv_masked || (split; simpl; auto; discriminate). }
  destruct (Z.leb_spec n k) as [L2|L2]; simpl.
  { rewrite !orb_true_r. simpl. split; simpl; auto; discriminate. }
  set (j := Z.to_nat (if k <? 0 then k + n else k)).
  assert (Hj : (j < len a)%nat).
  { unfold j. destruct (Z.ltb_spec k 0); unfold n in *; lia. }
  destruct (He j Hj) as [Hm2 Hv2].
  rewrite !orb_false_r. rewrite <- Hm2. split; simpl; auto.
  intro Hf. apply orb_false_iff in Hf. destruct Hf as [_ Hf]. apply Hv2. exact Hf.
Qed.

Lemma stack_ni a a' b b' : obs_equiv a a' -> obs_equiv b b' ->
  outcome_equiv (q_stack a b) (q_stack a' b').
Proof.
  intros [Hl He] [Hbl Hbe]. unfold q_stack. rewrite <- Hl, <- Hbl.
  destruct (Nat.eqb (len a) (len b)); simpl; auto.
  split; simpl; [auto|]. intros i Hi.
  destruct (Nat.ltb_spec i (len a)) as [L|L].
  - apply He. exact L.
  - apply Hbe. lia.
Qed.

(* ---- every operation of the alphabet ---- *)
Lemma un_ni o a a' : obs_equiv a a' -> outcome_equiv (un o a) (un o a').
Proof.
  intro H. destruct o; simpl.
  - apply map1_ni; auto. exact resp_neg.
  - apply map1_ni; auto. exact resp_sanit0.
  - apply shrink_rt_ni; auto.
  - apply reduce_ni; auto. exact resp_sum.
  - apply reduce_ni; auto. exact resp_max.
  - apply reduce_ni; auto. exact resp_min.
  - apply reduce_ni; auto. exact resp_mean.
  - apply reduce_ni; auto. exact resp_any.
  - apply reduce_ni; auto. exact resp_all.
  - apply reduce_ni; auto. apply resp_arg.
  - apply reduce_ni; auto. apply resp_arg.
  - apply sort_ni; auto.
Qed.
Lemma bin_ni o a a' b b' : obs_equiv a a' -> obs_equiv b b' ->
  outcome_equiv (bin o a b) (bin o a' b').
Proof.
  intros Ha Hb. destruct o; simpl.
  - apply zip_ni; auto. apply resp_arith.
  - apply zip_ni; auto. apply resp_arith.
  - apply zip_ni; auto. apply resp_arith.
  - apply zip_ni; auto. exact resp_floordiv.
  - apply zip_ni; auto. exact resp_eq.
  - apply zip_ni; auto. exact resp_lt.
  - apply zip_ni; auto. exact resp_maximum.
  - apply zip_ni; auto. exact resp_maskwhere.
  - apply getitem_ni; auto.
  - apply stack_ni; auto.
Qed.

(* ---- programs ---- *)
Lemma nth_equiv env env' : Forall2 obs_equiv env env' ->
  forall n, obs_equiv (nth n env dflt) (nth n env' dflt).
Proof.
  induction 1 as [|a b l l' Hab _ IH]; intros [|n]; simpl; auto; apply obs_equiv_refl.
Qed.
Lemma eval_ni env env' : Forall2 obs_equiv env env' ->
  forall e, outcome_equiv (eval env e) (eval env' e).
Proof.
  intros He e. induction e as [n | o e IH | o e1 IH1 e2 IH2]; simpl.
  - apply nth_equiv. exact He.
  - destruct (eval env e) as [a|x], (eval env' e) as [a'|x']; simpl in *; auto; try contradiction.
    apply un_ni. exact IH.
  - destruct (eval env e1) as [a|x], (eval env' e1) as [a'|x']; simpl in *; auto; try contradiction.
    destruct (eval env e2) as [b|y], (eval env' e2) as [b'|y']; simpl in *; auto; try contradiction.
    apply bin_ni; auto.
Qed.

(* the executable comparator accepts indistinguishable outcomes *)
Lemma vis_eqb_equiv l l' : Forall2 cell_equiv l l' ->
  bl_eqb (map cm l) (map cm l') = true /\ vis_eqb (map cm l) (map cv l) (map cv l') = true.
Proof.
  induction 1 as [|c d l l' [Hm Hv] _ [IH1 IH2]]; simpl; auto.
  rewrite <- Hm, IH1, IH2. split.
  - destruct (cm c); reflexivity.
  - destruct (cm c) eqn:E; simpl; auto. rewrite (Hv eq_refl), Z.eqb_refl. reflexivity.
Qed.
Lemma obs_eqb_of_equiv x y : outcome_equiv x y -> obs_eqb (obs_of x) (obs_of y) = true.
Proof.
  destruct x as [a|e], y as [b|f]; simpl; try contradiction.
  - intro H. destruct (vis_eqb_equiv _ _ (cells_equiv _ _ H)) as [H1 H2].
    destruct H as [Hl _]. rewrite Hl, Nat.eqb_refl, H1, H2. reflexivity.
  - intros ->. destruct f; reflexivity.
Qed.

(* ---- teeth: a sum without the zero-fill is NOT non-interfering ---- *)
Definition tw1 : marr := of_cells [(false, 1); (true, 5)].
Definition tw2 : marr := of_cells [(false, 1); (true, 1000000)].
Lemma tw_equiv : obs_equiv tw1 tw2.
Proof.
  split; simpl; [auto|]. intros [|[|i]] Hi; simpl in *; try lia.
  - split; auto.
  - apply cell_equiv_masked.
Qed.
Lemma tw_differ : at_ tw1 1%nat <> at_ tw2 1%nat.
Proof. simpl. intro H. inversion H. Qed.
Lemma leaky_sum_refuted :
  exists a a', obs_equiv a a' /\ ~ obs_equiv (reduce r_sum_leaky a) (reduce r_sum_leaky a').
Proof.
  exists tw1, tw2. split; [exact tw_equiv|].
  intros [_ H]. specialize (H 0%nat). simpl in H.
  destruct (H (Nat.lt_0_succ 0)) as [_ Hv]. vm_compute in Hv. specialize (Hv eq_refl). discriminate.
Qed.
