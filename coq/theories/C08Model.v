(* C08 model: a heap of NumPy buffers, array objects (views with a WRITEABLE flag)
   and polymath objects (1-D float Scalars with an array or scalar mask), with the
   operations that create, share, freeze and write storage (qube.py: as_readonly,
   require_writable, clone, copy, broadcast_to, __iadd__, set_units; indexer.py:
   __getitem__/__setitem__; pickler.py: __setstate__).  Proof-free. *)
From Coq Require Import List Arith ZArith Bool.
Import ListNotations.

Record arrv := mka { abuf : nat; aidx : list nat; awr : bool }.
Record hobj := mkh {
  ovals : nat;               (* id of the value array *)
  omask : option nat;        (* id of the mask array, None = one Python bool *)
  omb : bool;                (* the bool when the mask is scalar *)
  oro : bool;                (* _readonly_ *)
  ounits : bool;
  olast : nat }.             (* length of the last axis (the arrays are row-major, rows of this length) *)
Record heap := mkheap {
  bufs : list (list Z);      (* buffers; mask buffers hold 0/1 *)
  arrs : list arrv;
  objs : list hobj;
  made : nat }.              (* number of HMake so far (only feeds fresh values) *)
Definition init_heap := mkheap [] [] [] 0.

Inductive hop :=
| HMake
| HFreeze (i : nat) | HSlice (i : nat) | HClone (i : nat) | HAdvanced (i : nat)
| HCopy (i : nat) | HBroadcast (i : nat) | HPickle (i : nat)
| HSetInt (i : nat) | HIAdd (i : nat) | HSetUnits (i : nat)
| HDirectV (i : nat) | HDirectM (i : nat).
Inductive outcome := ROk | RErr | RExc.

Definition dflt_arr := mka 0 [] false.
Definition dflt_obj := mkh 0 None false false false 1.
Definition get_arr (h : heap) (a : nat) : arrv := nth a (arrs h) dflt_arr.
Definition get_buf (h : heap) (b : nat) : list Z := nth b (bufs h) [].
Definition read (h : heap) (a : nat) : list Z :=
  let ar := get_arr h a in map (fun k => nth k (get_buf h (abuf ar)) 0%Z) (aidx ar).

Fixpoint set_nth {A} (l : list A) (k : nat) (x : A) : list A :=
  match l, k with
  | [], _ => []
  | _ :: t, 0 => x :: t
  | y :: t, S k' => y :: set_nth t k' x
  end.
Definition upd_nth {A} (l : list A) (k : nat) (f : A -> A) (d : A) : list A :=
  set_nth l k (f (nth k l d)).

(* write value z through array a at its k-th element *)
Definition write (h : heap) (a : nat) (k : nat) (z : Z) : heap :=
  let ar := get_arr h a in
  match nth_error (aidx ar) k with
  | None => h
  | Some p => mkheap (upd_nth (bufs h) (abuf ar) (fun b => set_nth b p z) []) (arrs h) (objs h) (made h)
  end.
Definition set_awr (h : heap) (a : nat) (w : bool) : heap :=
  mkheap (bufs h) (upd_nth (arrs h) a (fun ar => mka (abuf ar) (aidx ar) w) dflt_arr) (objs h) (made h).
Definition set_obj (h : heap) (i : nat) (o : hobj) : heap :=
  mkheap (bufs h) (arrs h) (set_nth (objs h) i o) (made h).
Definition add_buf (h : heap) (b : list Z) : heap * nat :=
  (mkheap (bufs h ++ [b]) (arrs h) (objs h) (made h), length (bufs h)).
Definition add_arr (h : heap) (a : arrv) : heap * nat :=
  (mkheap (bufs h) (arrs h ++ [a]) (objs h) (made h), length (arrs h)).
Definition add_obj (h : heap) (o : hobj) : heap :=
  mkheap (bufs h) (arrs h) (objs h ++ [o]) (made h).

(* Qube.as_readonly on object i (non-recursive part; these objects carry no derivatives) *)
Definition freeze (h : heap) (i : nat) : heap :=
  let o := nth i (objs h) dflt_obj in
  (* the arrays are frozen even when the object is already flagged read-only *)
  let h1 := set_awr h (ovals o) false in
  let h2 := match omask o with Some m => set_awr h1 m false | None => h1 end in
  set_obj h2 i (mkh (ovals o) (omask o) (omb o) true (ounits o) (olast o)).

(* a new array viewing positions [sel] of array a; NumPy: a view of a read-only array is read-only *)
Definition view (h : heap) (a : nat) (sel : list nat) : heap * nat :=
  let ar := get_arr h a in
  add_arr h (mka (abuf ar) (map (fun k => nth k (aidx ar) 0) sel) (awr ar)).
(* a new array over a fresh buffer holding [content] *)
Definition fresh_arr (h : heap) (content : list Z) (w : bool) : heap * nat :=
  let (h1, b) := add_buf h content in add_arr h1 (mka b (seq 0 (length content)) w).

(* Qube.__init__(values, mask, example) followed by obj._readonly_ = ro *)
Definition new_obj (h : heap) (va : nat) (ma : option nat) (mb : bool) (ro : bool) (u : bool) (l : nat) : heap :=
  let init_ro := negb (awr (get_arr h va)) in
  let h1 := if init_ro then match ma with Some m => set_awr h m false | None => h end else h in
  add_obj h1 (mkh va ma mb ro u l).

Definition all_true (l : list Z) : bool := forallb (fun z => negb (Z.eqb z 0)) l.
Definition any_true (l : list Z) : bool := existsb (fun z => negb (Z.eqb z 0)) l.

Definition valid (h : heap) (i : nat) : bool := Nat.ltb i (length (objs h)).

Definition hstep (h : heap) (p : hop) : heap * outcome :=
  match p with
  | HMake =>
      let base := (10 * Z.of_nat (S (made h)))%Z in
      let (h1, va) := fresh_arr h [base + 1; base + 2; base + 3]%Z true in
      let (h2, ma) := fresh_arr h1 [0; 1; 0]%Z true in
      let h3 := add_obj h2 (mkh va (Some ma) false false false 3) in
      (mkheap (bufs h3) (arrs h3) (objs h3) (S (made h)), ROk)
  | HFreeze i => if valid h i then (freeze h i, ROk) else (h, RExc)
  | HSlice i =>
      if valid h i then
        let o := nth i (objs h) dflt_obj in
        let n := length (aidx (get_arr h (ovals o))) in
        let sel := filter (fun k => Nat.ltb (Nat.modulo k (olast o)) 2) (seq 0 n) in
        let l' := Nat.min 2 (olast o) in
        let (h1, va) := view h (ovals o) sel in
        match omask o with
        | Some m => let (h2, ma) := view h1 m sel in (new_obj h2 va (Some ma) false (oro o) (ounits o) l', ROk)
        | None => (new_obj h1 va None (omb o) (oro o) (ounits o) l', ROk)
        end
      else (h, RExc)
  | HClone i =>
      if valid h i then
        let o := nth i (objs h) dflt_obj in (add_obj h o, ROk)
      else (h, RExc)
  | HAdvanced i =>
      if valid h i then
        let o := nth i (objs h) dflt_obj in
        let vs := read h (ovals o) in
        let rows := Nat.div (length vs) (olast o) in
        let pick (l : list Z) := flat_map (fun r => [nth (r * olast o + 1) l 0%Z; nth (r * olast o) l 0%Z]) (seq 0 rows) in
        if Nat.ltb (olast o) 2 then (h, RErr)       (* index 1 is out of range: nothing to model here *)
        else
        let (h1, va) := fresh_arr h (pick vs) true in
        match omask o with
        | Some m => let ms := read h m in
                    let (h2, ma) := fresh_arr h1 (pick ms) true in
                    (new_obj h2 va (Some ma) false (oro o) (ounits o) 2, ROk)
        | None => (new_obj h1 va None (omb o) (oro o) (ounits o) 2, ROk)
        end
      else (h, RExc)
  | HCopy i =>
      if valid h i then
        let o := nth i (objs h) dflt_obj in
        let (h1, va) := fresh_arr h (read h (ovals o)) true in
        match omask o with
        | Some m => let (h2, ma) := fresh_arr h1 (read h m) true in
                    (add_obj h2 (mkh va (Some ma) false false (ounits o) (olast o)), ROk)
        | None => (add_obj h1 (mkh va None (omb o) false (ounits o) (olast o)), ROk)
        end
      else (h, RExc)
  | HBroadcast i =>
      if valid h i then
        let h0 := freeze h i in            (* an array-valued source becomes read-only *)
        let o := nth i (objs h0) dflt_obj in
        let n := length (aidx (get_arr h0 (ovals o))) in
        let (h1, va0) := view h0 (ovals o) (seq 0 n ++ seq 0 n) in
        let h1' := set_awr h1 va0 false in
        match omask o with
        | Some m => let (h2, ma) := view h1' m (seq 0 n ++ seq 0 n) in
                    (add_obj (set_awr h2 ma false) (mkh va0 (Some ma) false true (ounits o) (olast o)), ROk)
        | None => (add_obj h1' (mkh va0 None (omb o) true (ounits o) (olast o)), ROk)
        end
      else (h, RExc)
  | HPickle i =>
      if valid h i then
        let o := nth i (objs h) dflt_obj in
        let vs := read h (ovals o) in
        let w := negb (oro o) in
        match omask o with
        | Some m =>
            let ms := read h m in
            if all_true ms then
              let (h1, va) := fresh_arr h (map (fun _ => 1%Z) vs) w in
              (add_obj h1 (mkh va None true (oro o) (ounits o) (olast o)), ROk)
            else if negb (any_true ms) then
              let (h1, va) := fresh_arr h vs w in
              (add_obj h1 (mkh va None false (oro o) (ounits o) (olast o)), ROk)
            else
              let (h1, va) := fresh_arr h vs w in
              let (h2, ma) := fresh_arr h1 ms w in
              (add_obj h2 (mkh va (Some ma) false (oro o) (ounits o) (olast o)), ROk)
        | None =>
            let (h1, va) := fresh_arr h (if omb o then map (fun _ => 1%Z) vs else vs) w in
            (add_obj h1 (mkh va None (omb o) (oro o) (ounits o) (olast o)), ROk)
        end
      else (h, RExc)
  | HSetInt i =>
      if valid h i then
        let o := nth i (objs h) dflt_obj in
        if oro o then (h, RErr)
        else if negb (awr (get_arr h (ovals o))) then (h, RErr)     (* NumPy refuses the write *)
        else
          let n := length (aidx (get_arr h (ovals o))) in
          let firsts := filter (fun k => Nat.eqb (Nat.modulo k (olast o)) 0) (seq 0 n) in
          let h1 := fold_left (fun hh k => write hh (ovals o) k 99%Z) firsts h in
          let clr (l : list Z) := fold_left (fun acc k => set_nth acc k 0%Z) firsts l in
          match omask o with
          | Some m =>          (* the mask is copied before it is written: it might be shared *)
              let (h2, ma) := fresh_arr h1 (clr (read h1 m)) true in
              (set_obj h2 i (mkh (ovals o) (Some ma) false false (ounits o) (olast o)), ROk)
          | None =>
              if omb o then    (* scalar True vs the value's scalar False: expand to an array *)
                let (h2, ma) := fresh_arr h1 (clr (map (fun _ => 1%Z) (seq 0 n))) true in
                (set_obj h2 i (mkh (ovals o) (Some ma) false false (ounits o) (olast o)), ROk)
              else (h1, ROk)
          end
      else (h, RExc)
  | HIAdd i =>
      if valid h i then
        let o := nth i (objs h) dflt_obj in
        if oro o then (h, RErr)
        else if negb (awr (get_arr h (ovals o))) then (h, RErr)
        else
          let ar := get_arr h (ovals o) in
          (mkheap (upd_nth (bufs h) (abuf ar)
                           (fun b => fold_left (fun acc p => set_nth acc p (nth p acc 0 + 100)%Z) (aidx ar) b) [])
                  (arrs h) (objs h) (made h), ROk)
      else (h, RExc)
  | HSetUnits i =>
      if valid h i then
        let o := nth i (objs h) dflt_obj in
        if oro o then (h, RErr)
        else (set_obj h i (mkh (ovals o) (omask o) (omb o) false true (olast o)), ROk)
      else (h, RExc)
  | HDirectV i =>
      if valid h i then
        let o := nth i (objs h) dflt_obj in
        if awr (get_arr h (ovals o)) then (write h (ovals o) 0 55%Z, ROk) else (h, RErr)
      else (h, RExc)
  | HDirectM i =>
      if valid h i then
        let o := nth i (objs h) dflt_obj in
        match omask o with
        | Some m => if awr (get_arr h m) then (write h m 0 1%Z, ROk) else (h, RErr)
        | None => (h, ROk)
        end
      else (h, RExc)
  end.

Fixpoint hrun (h : heap) (ps : list hop) : heap :=
  match ps with [] => h | p :: t => hrun (fst (hstep h p)) t end.

(* ---- observation ---- *)
Definition obs_obj (h : heap) (o : hobj) : bool * bool * option bool * list (option Z) * bool :=
  let vs := read h (ovals o) in
  let ms := match omask o with
            | Some m => map (fun z => negb (Z.eqb z 0)) (read h m)
            | None => map (fun _ => omb o) vs
            end in
  (oro o, awr (get_arr h (ovals o)),
   match omask o with Some m => Some (awr (get_arr h m)) | None => None end,
   map (fun p : Z * bool => if snd p then @None Z else Some (fst p)) (combine vs ms),
   ounits o).
Definition obs_heap (h : heap) := map (obs_obj h) (objs h).

Fixpoint htrace (h : heap) (ps : list hop) :=
  match ps with
  | [] => []
  | p :: t => let r := hstep h p in (snd r, obs_heap (fst r)) :: htrace (fst r) t
  end.

Definition ob_eqb (a b : option bool) : bool :=
  match a, b with Some x, Some y => Bool.eqb x y | None, None => true | _, _ => false end.
Definition oz_eqb (a b : option Z) : bool :=
  match a, b with Some x, Some y => Z.eqb x y | None, None => true | _, _ => false end.
Fixpoint loz_eqb (a b : list (option Z)) : bool :=
  match a, b with [], [] => true | x :: a', y :: b' => oz_eqb x y && loz_eqb a' b' | _, _ => false end.
Definition o5_eqb (a b : bool * bool * option bool * list (option Z) * bool) : bool :=
  let '(r1, w1, m1, v1, u1) := a in
  let '(r2, w2, m2, v2, u2) := b in
  Bool.eqb r1 r2 && Bool.eqb w1 w2 && ob_eqb m1 m2 && loz_eqb v1 v2 && Bool.eqb u1 u2.
Fixpoint lo5_eqb (a b : list (bool * bool * option bool * list (option Z) * bool)) : bool :=
  match a, b with [], [] => true | x :: a', y :: b' => o5_eqb x y && lo5_eqb a' b' | _, _ => false end.
Definition out_eqb (a b : outcome) : bool :=
  match a, b with ROk, ROk | RErr, RErr | RExc, RExc => true | _, _ => false end.
Fixpoint tr_eqb (a b : list (outcome * list (bool * bool * option bool * list (option Z) * bool))) : bool :=
  match a, b with
  | [], [] => true
  | (o1, s1) :: a', (o2, s2) :: b' => out_eqb o1 o2 && lo5_eqb s1 s2 && tr_eqb a' b'
  | _, _ => false
  end.
Fixpoint mism_from (k : nat)
   (l : list (list hop * list (outcome * list (bool * bool * option bool * list (option Z) * bool)))) : list nat :=
  match l with
  | [] => []
  | (ps, t) :: rest => if tr_eqb (htrace init_heap ps) t then mism_from (S k) rest
                       else k :: mism_from (S k) rest
  end.
Definition mismatches := mism_from 0.
