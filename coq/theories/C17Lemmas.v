(* C17 proofs: shrink / unshrink commute with element-wise evaluation *)
From Coq Require Import List Arith ZArith Bool Lia.
From PM Require Import C17Model.
Import ListNotations.

(* ---- observable equality is an equivalence, and element-wise ops respect it ---- *)
Lemma oeq_refl x : oeq x x.
Proof. split; auto. Qed.
Lemma oeq_sym x y : oeq x y -> oeq y x.
Proof. intros [A B]. split; [congruence|]. intro H. symmetry. apply B. congruence. Qed.
Lemma oeq_trans x y z : oeq x y -> oeq y z -> oeq x z.
Proof. intros [A B] [C D]. split; [congruence|]. intro H. rewrite B by auto. apply D. congruence. Qed.
Lemma oeq_masked x y : snd x = true -> snd y = true -> oeq x y.
Proof. intros A B. split; [congruence|]. intro H. congruence. Qed.

Fixpoint evalpt (e : expr) (f : nat -> elem) : elem :=
  match e with
  | Leaf x => f x
  | Un u e1 => un_elem u (evalpt e1 f)
  | Bin b e1 e2 => bin_elem b (evalpt e1 f) (evalpt e2 f)
  | Const z => (z, false)
  end.

Lemma un_oeq u x y : oeq x y -> oeq (un_elem u x) (un_elem u y).
Proof. intros [A B]. split; simpl; auto. intro H. rewrite B; auto. Qed.
Lemma bin_oeq b x y x' y' : oeq x x' -> oeq y y' -> oeq (bin_elem b x y) (bin_elem b x' y').
Proof.
  intros [A B] [C D]. split; simpl; [congruence|].
  intro H. apply orb_false_iff in H. destruct H as [H1 H2]. rewrite B, D; auto.
Qed.
Lemma evalpt_oeq e f g : (forall x, oeq (f x) (g x)) -> oeq (evalpt e f) (evalpt e g).
Proof.
  intro H. induction e as [x|u e IH|b e1 IH1 e2 IH2|z]; simpl; auto.
  - apply un_oeq; auto.
  - apply bin_oeq; auto.
  - apply oeq_refl.
Qed.

(* evaluation on objects is point-wise *)
Lemma at_bin b a c i : at_ (obj_bin b a c) i = bin_elem b (at_ a i) (at_ c i).
Proof.
  destruct (shaped a) eqn:Ea, (shaped c) eqn:Ec; unfold obj_bin, at_; simpl;
    rewrite ?Ea, ?Ec; simpl; unfold at_; rewrite ?Ea, ?Ec; reflexivity.
Qed.
Lemma at_un u a i : at_ (obj_un u a) i = un_elem u (at_ a i).
Proof. unfold at_, obj_un; simpl. destruct (shaped a); reflexivity. Qed.
Lemma eval_pointwise env e i : at_ (eval env e) i = evalpt e (fun x => at_ (env x) i).
Proof.
  induction e as [x|u e IH|b e1 IH1 e2 IH2|z]; simpl; auto.
  - rewrite at_un, IH. reflexivity.
  - rewrite at_bin, IH1, IH2. reflexivity.
Qed.

(* ---- positions of the True entries of an antimask ---- *)
Lemma positions_from_spec l : forall k p, In p (positions_from k l) <->
  (k <= p /\ nth (p - k) l false = true /\ p - k < length l).
Proof.
  induction l as [|b l IH]; intros k p; simpl.
  - split; [tauto|]. intros (_ & _ & H). lia.
  - destruct b; simpl; rewrite ?IH.
    + split.
      * intros [<-|(A & B & C)].
        -- rewrite Nat.sub_diag. repeat split; auto; lia.
        -- replace (p - k) with (S (p - S k)) by lia. repeat split; auto; lia.
      * intros (A & B & C). destruct (Nat.eq_dec k p) as [->|N]; [left; reflexivity|right].
        replace (p - k) with (S (p - S k)) in B, C by lia. repeat split; auto; lia.
    + split.
      * intros (A & B & C). replace (p - k) with (S (p - S k)) by lia. repeat split; auto; lia.
      * intros (A & B & C). destruct (Nat.eq_dec k p) as [->|N].
        -- rewrite Nat.sub_diag in B. discriminate.
        -- replace (p - k) with (S (p - S k)) in B, C by lia. repeat split; auto; lia.
Qed.
Lemma positions_selected l p : In p (positions l) -> nth p l false = true /\ p < length l.
Proof.
  unfold positions. intro H. apply positions_from_spec in H. rewrite Nat.sub_0_r in H. tauto.
Qed.
Lemma index_of_positions_from l : forall k j acc,
  j < length (positions_from k l) ->
  index_of (nth j (positions_from k l) 0) (positions_from k l) acc = Some (acc + j).
Proof.
  induction l as [|b l IH]; intros k j acc H; simpl in *; [lia|].
  destruct b; simpl in *.
  - destruct j as [|j]; simpl.
    + rewrite Nat.eqb_refl. f_equal. lia.
    + assert (Hin : In (nth j (positions_from (S k) l) 0) (positions_from (S k) l))
        by (apply nth_In; lia).
      apply positions_from_spec in Hin. destruct Hin as (A & _).
      destruct (Nat.eqb_spec (nth j (positions_from (S k) l) 0) k); [lia|].
      rewrite IH by lia. f_equal. lia.
  - apply IH. exact H.
Qed.
Lemma index_of_positions l j :
  j < length (positions l) -> index_of (nth j (positions l) 0) (positions l) 0 = Some j.
Proof. intro H. unfold positions. rewrite index_of_positions_from; auto. Qed.

(* ---- shrink selects, unshrink scatters ---- *)
Lemma forallb_nth {A} (p : A -> bool) l k d : forallb p l = true -> k < length l -> p (nth k l d) = true.
Proof. intros H L. rewrite forallb_forall in H. apply H. apply nth_In; auto. Qed.

(* C17_select: element k of the shrunk object is the element at the k-th selected position *)
Lemma shrink_select l o k :
  k < length (positions l) ->
  oeq (at_ (shrink (AA l) o) k) (at_ o (nth k (positions l) 0)).
Proof.
  intro H. unfold shrink.
  destruct (all_masked_on o (positions l)) eqn:E.
  - apply oeq_masked; [reflexivity|].
    unfold all_masked_on in E.
    apply (forallb_nth (fun p => snd (at_ o p)) _ k 0 E H).
  - destruct (shaped o) eqn:S; simpl.
    + unfold at_; simpl. rewrite S. apply oeq_refl.
    + unfold at_. rewrite S. apply oeq_refl.
Qed.

Definition shrunk_wf (l : list bool) (s : sobj) : Prop :=
  shaped s = true -> len s = length (positions l).

Lemma shrink_wf l o : shrunk_wf l (shrink (AA l) o).
Proof.
  unfold shrunk_wf, shrink. destruct (all_masked_on o (positions l)); simpl; [discriminate|].
  destruct (shaped o) eqn:S; simpl; auto. rewrite S. discriminate.
Qed.

Lemma unshrink_scatter l s k :
  shrunk_wf l s -> k < length (positions l) ->
  oeq (at_ (unshrink (AA l) s) (nth k (positions l) 0)) (at_ s k).
Proof.
  intros W H. unfold unshrink.
  destruct (positions l) as [|p0 ps] eqn:P; [simpl in H; lia|]. rewrite <- P in *.
  replace (match positions l with [] => true | _ :: _ => false end) with false by (rewrite P; reflexivity).
  simpl. destruct (all_masked s) eqn:E.
  - apply oeq_masked; [reflexivity|].
    unfold all_masked in E. unfold at_. destruct (shaped s) eqn:S; auto.
    apply (forallb_nth (fun i => snd (get s i)) _ k 0) in E.
    + rewrite seq_nth in E; auto. rewrite W; auto.
    + rewrite seq_length, W; auto.
  - destruct (shaped s) eqn:S; simpl.
    + unfold at_; simpl. rewrite S. rewrite index_of_positions; auto. apply oeq_refl.
    + unfold at_. rewrite S. apply oeq_refl.
Qed.

(* evaluation in the shrunk space keeps the shrunk layout *)
Lemma eval_shrunk_wf l env e :
  (forall x, shrunk_wf l (env x)) -> shrunk_wf l (eval env e).
Proof.
  intro H. induction e as [x|u e1 IH1|b e1 IH1 e2 IH2|z]; simpl.
  - apply H.
  - unfold shrunk_wf in *; simpl. exact IH1.
  - unfold shrunk_wf in *; simpl. intro S.
    destruct (shaped (eval env e1)) eqn:S1; auto.
  - unfold shrunk_wf; simpl. discriminate.
Qed.

(* ---- the main theorems ---- *)
(* C17_commute: evaluate on shrunk operands, unshrink: same as direct evaluation at
   every selected position - mask state and value *)
Theorem commute l env e k :
  k < length (positions l) ->
  oeq (at_ (unshrink (AA l) (eval (fun x => shrink (AA l) (env x)) e)) (nth k (positions l) 0))
      (at_ (eval env e) (nth k (positions l) 0)).
Proof.
  intro H.
  eapply oeq_trans.
  - apply unshrink_scatter; auto. apply eval_shrunk_wf. intro x. apply shrink_wf.
  - rewrite !eval_pointwise. apply evalpt_oeq. intro x. apply shrink_select. exact H.
Qed.

(* C17_roundtrip: unshrink (shrink x) reproduces x on the antimask *)
Theorem roundtrip l o k :
  k < length (positions l) ->
  oeq (at_ (unshrink (AA l) (shrink (AA l) o)) (nth k (positions l) 0)) (at_ o (nth k (positions l) 0)).
Proof. intro H. apply (commute l (fun _ => o) (Leaf 0) k H). Qed.

(* scalar antimasks *)
Theorem commute_true env e i :
  at_ (unshrink (AS true) (eval (fun x => shrink (AS true) (env x)) e)) i = at_ (eval env e) i.
Proof. reflexivity. Qed.

(* everything outside the antimask comes back masked *)
Theorem unshrink_outside l s i :
  shaped (unshrink (AA l) s) = true -> ~ In i (positions l) -> snd (at_ (unshrink (AA l) s) i) = true.
Proof.
  unfold unshrink.
  destruct ((match positions l with [] => true | _ => false end) || all_masked s); simpl; [discriminate|].
  destruct (shaped s) eqn:S; simpl; [|rewrite S; discriminate].
  intros _ N. unfold at_; simpl.
  assert (E : forall ps acc, ~ In i ps -> index_of i ps acc = None).
  { induction ps as [|q ps IH]; intros acc Hn; simpl; auto.
    destruct (Nat.eqb_spec i q); [subst; exfalso; apply Hn; left; reflexivity|].
    apply IH. intro Hi. apply Hn. right; exact Hi. }
  rewrite E; auto.
Qed.

(* C17_switches: with shrinking disabled the answers on the antimask are the same *)
Lemma shrink_disabled_selected l o i :
  nth i l false = true -> oeq (at_ (shrink_disabled (AA l) o) i) (at_ o i).
Proof.
  intro H. unfold shrink_disabled, at_. destruct (shaped o) eqn:S; simpl; rewrite ?S; [|apply oeq_refl].
  rewrite H. simpl. rewrite orb_false_r. split; simpl; auto.
Qed.
Theorem disabled_agrees l env e i :
  nth i l false = true ->
  oeq (at_ (eval (fun x => shrink_disabled (AA l) (env x)) e) i) (at_ (eval env e) i).
Proof.
  intro H. rewrite !eval_pointwise. apply evalpt_oeq. intro x. apply shrink_disabled_selected. exact H.
Qed.
