(* C07 proofs over the heap model of C07Model.v *)
From Coq Require Import List Arith Bool ZArith Lia.
From PM Require Import C07Model.
Import ListNotations.
Open Scope bool_scope.

Lemma upd_lt {A} (f : nat -> A) k v x : x < k -> upd f k v x = f x.
Proof. intro H. unfold upd. destruct (x =? k) eqn:E; auto. apply Nat.eqb_eq in E. lia. Qed.
Lemma upd_ne {A} (f : nat -> A) k v x : x <> k -> upd f k v x = f x.
Proof. intro H. unfold upd. destruct (x =? k) eqn:E; auto. apply Nat.eqb_eq in E. congruence. Qed.
Lemma upd_eq {A} (f : nat -> A) k v : upd f k v k = v.
Proof. unfold upd. rewrite Nat.eqb_refl. reflexivity. Qed.

(* ---------- allocation only touches fresh indices ---------- *)
Lemma alloc_slots_frame : forall l st st' r, alloc_slots st l = (st', r) ->
  nbuf st <= nbuf st' /\ narr st <= narr st' /\ nobj st' = nobj st /\ objs st' = objs st /\
  (forall x, x < nbuf st -> bufs st' x = bufs st x) /\
  (forall x, x < narr st -> arrs st' x = arrs st x) /\
  (forall a, In a (map snd r) -> narr st <= a < narr st' /\ nbuf st <= v_buf (arrs st' a) < nbuf st') /\
  ((forall a, a < narr st -> v_buf (arrs st a) < nbuf st) ->
   (forall a, a < narr st' -> v_buf (arrs st' a) < nbuf st')).
Proof.
  induction l as [|[t c] l IH]; intros st st' r E; simpl in E.
  - inversion E; subst. split; [lia|]. split; [lia|]. split; [reflexivity|]. split; [reflexivity|].
    split; [auto|]. split; [auto|]. split; [intros a []|auto].
  - destruct (alloc_slots _ l) as [st2 r2] eqn:E2. inversion E; subst; clear E.
    apply IH in E2. simpl in E2.
    destruct E2 as (B & A & O & Ob & Fb & Fa & R & W).
    split; [lia|]. split; [lia|]. split; [exact O|]. split; [exact Ob|].
    split. { intros x Hx. rewrite Fb by lia. apply upd_lt. exact Hx. }
    split. { intros x Hx. rewrite Fa by lia. apply upd_lt. exact Hx. }
    split.
    { intros a Ha. simpl in Ha. destruct Ha as [<-|Ha].
      - rewrite Fa by lia. rewrite upd_eq. simpl. lia.
      - apply R in Ha. lia. }
    intros Hw. apply W. intros a Ha.
    destruct (Nat.eq_dec a (narr st)) as [->|Hn].
    + rewrite upd_eq. simpl. lia.
    + rewrite upd_ne by exact Hn. assert (Hlt : a < narr st) by lia. specialize (Hw a Hlt). lia.
Qed.

Lemma alloc_views_frame : forall l st st' r, alloc_views st l = (st', r) ->
  nbuf st' = nbuf st /\ bufs st' = bufs st /\ narr st <= narr st' /\ nobj st' = nobj st /\ objs st' = objs st /\
  (forall x, x < narr st -> arrs st' x = arrs st x) /\
  (forall a, In a (map snd r) -> narr st <= a < narr st') /\
  ((forall t v, In (t, v) l -> v_buf v < nbuf st) ->
   (forall a, a < narr st -> v_buf (arrs st a) < nbuf st) ->
   (forall a, a < narr st' -> v_buf (arrs st' a) < nbuf st')).
Proof.
  induction l as [|[t v] l IH]; intros st st' r E; simpl in E.
  - inversion E; subst. split; [reflexivity|]. split; [reflexivity|]. split; [lia|]. split; [reflexivity|].
    split; [reflexivity|]. split; [auto|]. split; [intros a []|auto].
  - destruct (alloc_views _ l) as [st2 r2] eqn:E2. inversion E; subst; clear E.
    apply IH in E2. simpl in E2.
    destruct E2 as (B & Bf & A & O & Ob & Fa & R & W).
    split; [exact B|]. split; [exact Bf|]. split; [lia|]. split; [exact O|]. split; [exact Ob|].
    split. { intros x Hx. rewrite Fa by lia. apply upd_lt. exact Hx. }
    split.
    { intros a Ha. simpl in Ha. destruct Ha as [<-|Ha]; [lia|]. apply R in Ha. lia. }
    intros Hl Hw. apply W.
    + intros t0 v0 H0. apply (Hl t0 v0). right. exact H0.
    + intros a Ha. destruct (Nat.eq_dec a (narr st)) as [->|Hn].
      * rewrite upd_eq. apply (Hl t v). left. reflexivity.
      * rewrite upd_ne by exact Hn. apply Hw. lia.
Qed.

Lemma freeze_arrs_fields f l x :
  v_buf (freeze_arrs f l x) = v_buf (f x) /\ v_off (freeze_arrs f l x) = v_off (f x) /\
  v_len (freeze_arrs f l x) = v_len (f x) /\
  (v_wr (freeze_arrs f l x) = v_wr (f x) \/ (v_wr (freeze_arrs f l x) = false /\ In x l)).
Proof.
  unfold freeze_arrs. destruct (existsb (Nat.eqb x) l) eqn:E; simpl; auto.
  repeat split; auto. right. split; auto.
  apply existsb_exists in E. destruct E as (y & Hy & Ey). apply Nat.eqb_eq in Ey. subst. exact Hy.
Qed.
Lemma freeze_arrs_notin f l x : ~ In x l -> freeze_arrs f l x = f x.
Proof.
  intro H. unfold freeze_arrs. destruct (existsb (Nat.eqb x) l) eqn:E; auto.
  apply existsb_exists in E. destruct E as (y & Hy & Ey). apply Nat.eqb_eq in Ey. subst. contradiction.
Qed.

(* ---------- C07_frame ---------- *)
Definition frame_holds (st : state) (c : call) (st' : state) : Prop :=
  nbuf st <= nbuf st' /\ narr st <= narr st' /\ nobj st <= nobj st' /\
  (forall l, l < nbuf st -> bufs st' l = bufs st l) /\
  (forall o, o < nobj st -> objs st' o = objs st o \/ (c = CBroadcast o /\ objs st' o = set_ro (objs st o))) /\
  (forall a, a < narr st ->
     v_buf (arrs st' a) = v_buf (arrs st a) /\ v_off (arrs st' a) = v_off (arrs st a) /\
     v_len (arrs st' a) = v_len (arrs st a) /\
     (v_wr (arrs st' a) = v_wr (arrs st a) \/
      (v_wr (arrs st' a) = false /\ exists src, c = CBroadcast src /\ In a (owned_arrs st src)))).

Lemma frame_refl st c : frame_holds st c st.
Proof. unfold frame_holds. repeat split; auto. Qed.

Theorem frame : forall st c, nonmut c = true -> frame_holds st c (step st c).
Proof.
  intros st c Hc. destruct c; simpl in Hc; try discriminate; simpl.
  - (* CNew *)
    destruct (alloc_slots st slots) as [st1 sl] eqn:E. apply alloc_slots_frame in E.
    destruct E as (B & A & O & Ob & Fb & Fa & _).
    unfold frame_holds, add_obj. simpl. repeat split; try lia; auto.
    + intros o Ho. left. rewrite upd_lt by lia. rewrite Ob. reflexivity.
    + rewrite Fa by assumption. reflexivity.
    + rewrite Fa by assumption. reflexivity.
    + rewrite Fa by assumption. reflexivity.
    + left. rewrite Fa by assumption. reflexivity.
  - (* COp *)
    destruct (forallb (fun a => a <? nobj st) args); [|apply frame_refl].
    destruct (alloc_slots st _) as [st1 sl] eqn:E. apply alloc_slots_frame in E.
    destruct E as (B & A & O & Ob & Fb & Fa & _).
    unfold frame_holds, add_obj. simpl. repeat split; try lia; auto.
    + intros o Ho. left. rewrite upd_lt by lia. rewrite Ob. reflexivity.
    + rewrite Fa by assumption. reflexivity.
    + rewrite Fa by assumption. reflexivity.
    + rewrite Fa by assumption. reflexivity.
    + left. rewrite Fa by assumption. reflexivity.
  - (* CView *)
    destruct (a <? nobj st); [|apply frame_refl].
    destruct (alloc_views st _) as [st1 sl] eqn:E. apply alloc_views_frame in E.
    destruct E as (B & Bf & A & O & Ob & Fa & _).
    unfold frame_holds, add_obj. simpl. repeat split; try lia; auto.
    + intros l Hl. rewrite Bf. reflexivity.
    + intros o Ho. left. rewrite upd_lt by lia. rewrite Ob. reflexivity.
    + rewrite Fa by assumption. reflexivity.
    + rewrite Fa by assumption. reflexivity.
    + rewrite Fa by assumption. reflexivity.
    + left. rewrite Fa by assumption. reflexivity.
  - (* CBroadcast *)
    destruct (a <? nobj st) eqn:Ea; [|apply frame_refl].
    destruct (alloc_views _ _) as [st1 sl] eqn:E. apply alloc_views_frame in E. simpl in E.
    destruct E as (B & Bf & A & O & Ob & Fa & _).
    unfold frame_holds, add_obj. simpl. repeat split; try lia; auto.
    + intros l Hl. rewrite Bf. reflexivity.
    + intros o Ho. rewrite upd_lt by lia. rewrite Ob.
      destruct (Nat.eq_dec o a) as [->|Hn].
      * right. rewrite upd_eq. auto.
      * left. apply upd_ne. exact Hn.
    + rewrite Fa by assumption. apply freeze_arrs_fields.
    + rewrite Fa by assumption. apply freeze_arrs_fields.
    + rewrite Fa by assumption. apply freeze_arrs_fields.
    + rewrite Fa by assumption.
      destruct (freeze_arrs_fields (arrs st) (map snd (o_slots (objs st a))) a0) as (_ & _ & _ & [HH|[HH1 HH2]]); auto.
      right. split; auto. exists a. split; auto.
  - (* CCopy *)
    destruct (a <? nobj st); [|apply frame_refl].
    destruct (alloc_slots st _) as [st1 sl] eqn:E. apply alloc_slots_frame in E.
    destruct E as (B & A & O & Ob & Fb & Fa & _).
    unfold frame_holds, add_obj. simpl. repeat split; try lia; auto.
    + intros o Ho. left. rewrite upd_lt by lia. rewrite Ob. reflexivity.
    + rewrite Fa by assumption. reflexivity.
    + rewrite Fa by assumption. reflexivity.
    + rewrite Fa by assumption. reflexivity.
    + left. rewrite Fa by assumption. reflexivity.
  - (* CRaise *)
    unfold frame_holds. simpl. repeat split; auto.
    intros l Hl. apply upd_lt. exact Hl.
Qed.

(* corollary in terms of observations: a non-mutating call leaves the observable content of every
   pre-existing object unchanged, except WRITEABLE/read-only of a broadcast source *)
Lemma window_ext st st' a :
  arrs st' a = arrs st a -> bufs st' (v_buf (arrs st a)) = bufs st (v_buf (arrs st a)) ->
  window st' a = window st a.
Proof. intros H1 H2. unfold window. rewrite H1, H2. reflexivity. Qed.

Lemma obs_ext st st' o :
  objs st' o = objs st o ->
  (forall a, In a (owned_arrs st o) -> arrs st' a = arrs st a /\
             bufs st' (v_buf (arrs st a)) = bufs st (v_buf (arrs st a))) ->
  obs st' o = obs st o.
Proof.
  intros Ho Ha. unfold obs. rewrite Ho. f_equal.
  apply map_ext_in. intros [t a] Hin. unfold obs_slot. simpl.
  assert (In a (owned_arrs st o)) as Hi. { unfold owned_arrs. apply in_map_iff. exists (t, a). auto. }
  destruct (Ha a Hi) as [H1 H2]. rewrite (window_ext st st' a H1 H2), H1. reflexivity.
Qed.

Theorem frame_obs : forall st c o, wf_state st -> nonmut c = true -> o < nobj st ->
  (forall src, c <> CBroadcast src) -> obs (step st c) o = obs st o.
Proof.
  intros st c o [W1 W2] Hc Ho Hnb.
  destruct (frame st c Hc) as (_ & _ & _ & Fb & Fo & Fa).
  apply obs_ext.
  - destruct (Fo o Ho) as [H|[H _]]; auto. exfalso. eapply Hnb; eauto.
  - intros a Ha. pose proof (W1 o Ho a Ha) as La.
    destruct (Fa a La) as (E1 & E2 & E3 & [E4|[_ (src & Hs & _)]]); [|exfalso; eapply Hnb; eauto].
    split.
    + destruct (arrs (step st c) a), (arrs st a). simpl in *. congruence.
    + apply Fb. apply W2. exact La.
Qed.

(* ---------- mutators: what a mutating step on x can touch ---------- *)
Definition mut_frame (st : state) (x : nat) (st' : state) : Prop :=
  nbuf st <= nbuf st' /\ narr st <= narr st' /\ nobj st' = nobj st /\
  (forall l, l < nbuf st -> ~ In l (owned_bufs st x) -> bufs st' l = bufs st l) /\
  (forall a, a < narr st -> ~ In a (owned_arrs st x) -> arrs st' a = arrs st a) /\
  (forall o, o <> x -> objs st' o = objs st o) /\
  (wf_state st -> x < nobj st -> forall a, In a (owned_arrs st' x) ->
     (In a (owned_arrs st x) /\ v_buf (arrs st' a) = v_buf (arrs st a)) \/
     (narr st <= a /\ nbuf st <= v_buf (arrs st' a))) /\
  (wf_state st -> wf_state st').

Lemma mut_frame_refl st x : mut_frame st x st.
Proof.
  unfold mut_frame. split; [lia|]. split; [lia|]. split; [reflexivity|]. split; [auto|]. split; [auto|].
  split; [auto|]. split; [|auto]. intros _ _ a Ha. left. auto.
Qed.

Lemma find_slot_in t l a : find_slot t l = Some a -> In a (map snd l).
Proof.
  induction l as [|[t' a'] l IH]; simpl; [discriminate|].
  destruct (tag_eqb t t'); intro H; [inversion H; auto | right; auto].
Qed.

Ltac mf_split :=
  unfold mut_frame; simpl; split; [try lia|]; split; [try lia|]; split; [try reflexivity|];
  split; [|split; [|split; [|split]]].

Lemma step_mut_frame st c x : target c = Some x -> mut_frame st x (step st c).
Proof.
  intro Ht. destruct c; simpl in Ht; try discriminate; inversion Ht; subst; clear Ht; simpl.
  - (* MSet *)
    destruct (x <? nobj st); [|apply mut_frame_refl].
    destruct (find_slot t (o_slots (objs st x))) as [ai|] eqn:Ef; [|apply mut_frame_refl].
    destruct (negb (o_ro (objs st x)) && v_wr (arrs st ai) && (i <? v_len (arrs st ai))); [|apply mut_frame_refl].
    apply find_slot_in in Ef.
    mf_split.
    + intros l Hl Hn. apply upd_ne. intro E. apply Hn. unfold owned_bufs. apply in_map_iff.
      exists ai. split; auto.
    + auto.
    + auto.
    + intros _ _ a Ha. left. auto.
    + intros [W1 W2]. split; auto.
  - (* MIadd *)
    destruct (x <? nobj st); [|apply mut_frame_refl].
    destruct (find_slot TVals (o_slots (objs st x))) as [ai|] eqn:Ef; [|apply mut_frame_refl].
    destruct (negb (o_ro (objs st x)) && v_wr (arrs st ai)); [|apply mut_frame_refl].
    apply find_slot_in in Ef.
    mf_split.
    + intros l Hl Hn. apply upd_ne. intro E. apply Hn. unfold owned_bufs. apply in_map_iff.
      exists ai. split; auto.
    + auto.
    + auto.
    + intros _ _ a Ha. left. auto.
    + intros [W1 W2]. split; auto.
  - (* MNewMask *)
    destruct (x <? nobj st) eqn:Ex; [|apply mut_frame_refl].
    destruct (find_slot TMask (o_slots (objs st x))); [apply mut_frame_refl|].
    destruct (o_ro (objs st x)); [apply mut_frame_refl|].
    apply Nat.ltb_lt in Ex.
    mf_split.
    + intros l Hl _. apply upd_lt. exact Hl.
    + intros a Ha _. apply upd_lt. exact Ha.
    + intros o Ho. apply upd_ne. exact Ho.
    + intros [W1 W2] _ a Ha. unfold owned_arrs in Ha. simpl in Ha. rewrite upd_eq in Ha. simpl in Ha.
      rewrite map_app in Ha. apply in_app_iff in Ha. destruct Ha as [Ha|[<-|[]]].
      * left. split; auto. rewrite upd_lt; [reflexivity|]. apply (W1 x Ex a Ha).
      * right. rewrite upd_eq. simpl. lia.
    + intros [W1 W2]. split; simpl.
      * intros o Ho a Ha. unfold owned_arrs in Ha. simpl in Ha.
        destruct (Nat.eq_dec o x) as [->|Hn].
        -- rewrite upd_eq in Ha. simpl in Ha. rewrite map_app in Ha. apply in_app_iff in Ha.
           destruct Ha as [Ha|[<-|[]]]; [|simpl; lia]. pose proof (W1 x Ho a Ha) as Hq. simpl in *. lia.
        -- rewrite upd_ne in Ha by exact Hn. specialize (W1 o Ho a Ha). lia.
      * intros a Ha. destruct (Nat.eq_dec a (narr st)) as [->|Hn].
        -- rewrite upd_eq. simpl. lia.
        -- rewrite upd_ne by exact Hn. assert (Hlt : a < narr st) by lia. specialize (W2 a Hlt). lia.
  - (* MFreeze *)
    destruct (x <? nobj st); [|apply mut_frame_refl].
    mf_split.
    + auto.
    + intros a Ha Hn. apply freeze_arrs_notin. exact Hn.
    + intros o Ho. apply upd_ne. exact Ho.
    + intros _ _ a Ha. left. unfold owned_arrs in *. simpl in Ha. rewrite upd_eq in Ha. simpl in Ha.
      split; auto. apply freeze_arrs_fields.
    + intros [W1 W2]. split; simpl.
      * intros o Ho a Ha. unfold owned_arrs in Ha. simpl in Ha.
        destruct (Nat.eq_dec o x) as [->|Hn].
        -- rewrite upd_eq in Ha. simpl in Ha. apply (W1 x Ho a Ha).
        -- rewrite upd_ne in Ha by exact Hn. apply (W1 o Ho a Ha).
      * intros a Ha.
        destruct (freeze_arrs_fields (arrs st) (map snd (o_slots (objs st x))) a) as (E & _). rewrite E. auto.
  - (* MDelDeriv *)
    destruct (x <? nobj st); [|apply mut_frame_refl].
    destruct (o_ro (objs st x)); [apply mut_frame_refl|].
    mf_split.
    + auto.
    + auto.
    + intros o Ho. apply upd_ne. exact Ho.
    + intros _ _ a Ha. left. unfold owned_arrs in *. simpl in Ha. rewrite upd_eq in Ha. simpl in Ha.
      split; auto. apply in_map_iff in Ha. destruct Ha as (s & <- & Hs). apply filter_In in Hs.
      apply in_map. tauto.
    + intros [W1 W2]. split; simpl; auto.
      intros o Ho a Ha. unfold owned_arrs in Ha. simpl in Ha.
      destruct (Nat.eq_dec o x) as [->|Hn].
      * rewrite upd_eq in Ha. simpl in Ha. apply (W1 x Ho a).
        apply in_map_iff in Ha. destruct Ha as (s & <- & Hs). apply filter_In in Hs.
        unfold owned_arrs. apply in_map. tauto.
      * rewrite upd_ne in Ha by exact Hn. apply (W1 o Ho a Ha).
Qed.

(* ---------- separation: mutating x never shows through in an object whose storage is disjoint ---------- *)
Definition sep (st : state) (x y : nat) : Prop :=
  (forall a, In a (owned_arrs st y) -> ~ In a (owned_arrs st x)) /\
  (forall l, In l (owned_bufs st y) -> ~ In l (owned_bufs st x)).

Lemma sep_sym st x y : sep st x y -> sep st y x.
Proof. intros [H1 H2]. split; intros k Hk Hk'; [apply (H1 k Hk' Hk) | apply (H2 k Hk' Hk)]. Qed.

Lemma mut_preserves st c x y :
  wf_state st -> x < nobj st -> y < nobj st -> x <> y -> sep st x y -> target c = Some x ->
  wf_state (step st c) /\ sep (step st c) x y /\ obs (step st c) y = obs st y /\
  nobj (step st c) = nobj st.
Proof.
  intros W Hx Hy Hxy [S1 S2] Ht.
  destruct (step_mut_frame st c x Ht) as (B & A & O & Fb & Fa & Fo & Own & Wf).
  pose proof W as [W1 W2].
  assert (Eo : objs (step st c) y = objs st y). { apply Fo. congruence. }
  assert (Ea : owned_arrs (step st c) y = owned_arrs st y). { unfold owned_arrs. rewrite Eo. reflexivity. }
  assert (Earr : forall a, In a (owned_arrs st y) -> arrs (step st c) a = arrs st a).
  { intros a Ha. apply Fa; [apply (W1 y Hy a Ha) | apply (S1 a Ha)]. }
  assert (Eb : owned_bufs (step st c) y = owned_bufs st y).
  { unfold owned_bufs. rewrite Ea. apply map_ext_in. intros a Ha. rewrite (Earr a Ha). reflexivity. }
  assert (Lb : forall l, In l (owned_bufs st y) -> l < nbuf st).
  { intros l Hl. unfold owned_bufs in Hl. apply in_map_iff in Hl. destruct Hl as (a & <- & Ha).
    apply W2. apply (W1 y Hy a Ha). }
  split; [apply Wf; exact W|]. split; [|split; [|exact O]].
  - split.
    + intros a Ha Hax. rewrite Ea in Ha.
      destruct (Own W Hx a Hax) as [[Hold _]|[Hnew _]].
      * apply (S1 a Ha Hold).
      * pose proof (W1 y Hy a Ha). lia.
    + intros l Hl Hlx. rewrite Eb in Hl.
      unfold owned_bufs in Hlx. apply in_map_iff in Hlx. destruct Hlx as (a & El & Hax).
      destruct (Own W Hx a Hax) as [[Hold Ebuf]|[_ Hnew]].
      * apply (S2 l Hl). unfold owned_bufs. apply in_map_iff. exists a. split; [congruence | exact Hold].
      * pose proof (Lb l Hl). lia.
  - apply obs_ext; [exact Eo|]. intros a Ha. split; [apply Earr; exact Ha|].
    apply Fb.
    + apply W2. apply (W1 y Hy a Ha).
    + apply S2. unfold owned_bufs. apply (in_map (fun a0 => v_buf (arrs st a0))). exact Ha.
Qed.

Lemma run_mut_preserves x y : forall ms st,
  wf_state st -> x < nobj st -> y < nobj st -> x <> y -> sep st x y ->
  Forall (fun c => target c = Some x) ms ->
  obs (run st ms) y = obs st y.
Proof.
  induction ms as [|c ms IH]; intros st W Hx Hy Hxy S F; simpl; [reflexivity|].
  inversion F as [|c' ms' Hc Hms]; subst.
  destruct (mut_preserves st c x y W Hx Hy Hxy S Hc) as (W' & S' & E & N).
  change (run st (c :: ms)) with (run (step st c) ms).
  rewrite IH; auto; rewrite ?N; auto.
Qed.

(* ---------- copy() ---------- *)
Lemma alloc_slots_content : forall l st st' r, alloc_slots st l = (st', r) ->
  map (fun s => (fst s, window st' (snd s))) r = l.
Proof.
  induction l as [|[t c] l IH]; intros st st' r E; simpl in E.
  - inversion E; subst. reflexivity.
  - destruct (alloc_slots _ l) as [st2 r2] eqn:E2. inversion E; subst; clear E.
    pose proof (alloc_slots_frame _ _ _ _ E2) as (_ & _ & _ & _ & Fb & Fa & _). simpl in Fb, Fa.
    simpl. rewrite (IH _ _ _ E2). f_equal. f_equal.
    unfold window. rewrite Fa by lia. rewrite upd_eq. simpl. rewrite Fb by lia. rewrite upd_eq.
    apply firstn_all.
Qed.

Lemma copy_state st a : wf_state st -> a < nobj st ->
  let st1 := step st (CCopy a) in
  wf_state st1 /\ nobj st1 = S (nobj st) /\ sep st1 a (nobj st) /\
  map (fun s => (fst (fst s), snd (fst s))) (ob_slots (obs st1 (nobj st))) =
  map (fun s => (fst (fst s), snd (fst s))) (ob_slots (obs st a)).
Proof.
  intros [W1 W2] Ha. simpl. apply Nat.ltb_lt in Ha. rewrite Ha. apply Nat.ltb_lt in Ha.
  destruct (alloc_slots st _) as [st1 sl] eqn:E.
  pose proof (alloc_slots_frame _ _ _ _ E) as (B & A & O & Ob & Fb & Fa & R & W).
  assert (Eoa : forall o, o < nobj st -> objs (add_obj st1 (mkobj sl (o_maskb (objs st a)) (o_units (objs st a)) false)) o = objs st o).
  { intros o Ho. unfold add_obj. simpl. rewrite upd_lt by lia. rewrite Ob. reflexivity. }
  assert (Eob : objs (add_obj st1 (mkobj sl (o_maskb (objs st a)) (o_units (objs st a)) false)) (nobj st)
                = mkobj sl (o_maskb (objs st a)) (o_units (objs st a)) false).
  { unfold add_obj. simpl. rewrite O. apply upd_eq. }
  split; [|split; [|split]].
  - split; simpl.
    + intros o Ho a0 Ha0. unfold owned_arrs in Ha0.
      destruct (Nat.eq_dec o (nobj st)) as [->|Hn].
      * rewrite Eob in Ha0. simpl in Ha0. apply R in Ha0. lia.
      * rewrite Eoa in Ha0 by lia. pose proof (W1 o ltac:(lia) a0 Ha0). lia.
    + apply W. exact W2.
  - simpl. rewrite O. reflexivity.
  - split.
    + intros k Hk Hk'. unfold owned_arrs in Hk, Hk'. rewrite Eob in Hk. simpl in Hk.
      rewrite Eoa in Hk' by exact Ha. apply R in Hk. pose proof (W1 a Ha k Hk'). lia.
    + intros l Hl Hl'. unfold owned_bufs, owned_arrs in Hl, Hl'. rewrite Eob in Hl. rewrite Eoa in Hl' by exact Ha.
      simpl in Hl. apply in_map_iff in Hl. destruct Hl as (k & <- & Hk).
      apply in_map_iff in Hl'. destruct Hl' as (k' & El & Hk').
      apply R in Hk. simpl in El. pose proof (W1 a Ha k' Hk') as Lk'.
      rewrite Fa in El by exact Lk'. pose proof (W2 k' Lk'). lia.
  - (* the copy has the content of the source *)
    unfold obs. rewrite Eob. simpl.
    pose proof (alloc_slots_content _ _ _ _ E) as Hc.
    rewrite !List.map_map. unfold obs_slot, window, add_obj in *. simpl in *. exact Hc.
Qed.

(* U: after b := copy(a), no sequence of mutator steps applied to one of them shows through in
   the observable content of the other *)
Theorem copy_independent st a : wf_state st -> a < nobj st ->
  let st1 := step st (CCopy a) in
  let b := nobj st in
  (forall ms, Forall (fun c => target c = Some b) ms -> obs (run st1 ms) a = obs st1 a) /\
  (forall ms, Forall (fun c => target c = Some a) ms -> obs (run st1 ms) b = obs st1 b).
Proof.
  intros W Ha st1 b.
  destruct (copy_state st a W Ha) as (W1 & N1 & S1 & _). fold st1 in W1, N1, S1.
  assert (Hb : b < nobj st1) by (unfold b; lia).
  assert (Ha1 : a < nobj st1) by lia.
  assert (Hab : a <> b) by (unfold b; lia).
  split; intros ms F.
  - apply (run_mut_preserves b a ms st1); auto. apply sep_sym. exact S1.
  - apply (run_mut_preserves a b ms st1); auto.
Qed.

(* ---------- every reachable state is well-formed ---------- *)
Lemma wf_init : wf_state init.
Proof. split; simpl; intros; lia. Qed.

Lemma add_obj_wf st1 st p :
  nobj st1 = nobj st -> objs st1 = objs st -> narr st <= narr st1 ->
  wf_state st -> (forall a, a < narr st1 -> v_buf (arrs st1 a) < nbuf st1) ->
  (forall a, In a (map snd (o_slots p)) -> a < narr st1) ->
  wf_state (add_obj st1 p).
Proof.
  intros O Ob A [W1 W2] Wa Hp. split; unfold add_obj; simpl.
  - intros o Ho a Ha. unfold owned_arrs in Ha. simpl in Ha.
    destruct (Nat.eq_dec o (nobj st1)) as [->|Hn].
    + rewrite upd_eq in Ha. apply Hp. exact Ha.
    + rewrite upd_ne in Ha by exact Hn. rewrite Ob in Ha.
      assert (Ho' : o < nobj st) by lia. pose proof (W1 o Ho' a Ha). lia.
  - exact Wa.
Qed.

Lemma step_wf st c : wf_state st -> wf_state (step st c).
Proof.
  intro W. destruct (target c) as [x|] eqn:Ht.
  { destruct (step_mut_frame st c x Ht) as (_ & _ & _ & _ & _ & _ & _ & Wf). auto. }
  pose proof W as [W1 W2].
  destruct c; simpl in Ht; try discriminate; simpl.
  - destruct (alloc_slots st slots) as [st1 sl] eqn:E.
    pose proof (alloc_slots_frame _ _ _ _ E) as (B & A & O & Ob & Fb & Fa & R & Wa).
    apply (add_obj_wf st1 st); auto. simpl. intros a Ha. apply R in Ha. lia.
  - destruct (forallb (fun a => a <? nobj st) args); [|exact W].
    destruct (alloc_slots st _) as [st1 sl] eqn:E.
    pose proof (alloc_slots_frame _ _ _ _ E) as (B & A & O & Ob & Fb & Fa & R & Wa).
    apply (add_obj_wf st1 st); auto. simpl. intros a Ha. apply R in Ha. lia.
  - destruct (a <? nobj st) eqn:Ea; [|exact W]. apply Nat.ltb_lt in Ea.
    destruct (alloc_views st _) as [st1 sl] eqn:E.
    pose proof (alloc_views_frame _ _ _ _ E) as (B & Bf & A & O & Ob & Fa & R & Wa).
    apply (add_obj_wf st1 st); auto.
    + apply Wa; auto. intros t v Hin. apply in_map_iff in Hin. destruct Hin as ([t' k] & Eq & Hk).
      assert (Hk' : In k (owned_arrs st a)). { unfold owned_arrs. apply in_map_iff. exists (t', k). auto. }
      inversion Eq; subst. simpl. apply W2. apply (W1 a Ea). exact Hk'.
    + simpl. intros k Hk. apply R in Hk. lia.
  - destruct (a <? nobj st) eqn:Ea; [|exact W]. apply Nat.ltb_lt in Ea.
    destruct (alloc_views _ _) as [st1 sl] eqn:E.
    pose proof (alloc_views_frame _ _ _ _ E) as (B & Bf & A & O & Ob & Fa & R & Wa). simpl in *.
    set (st0 := mkst (bufs st) (nbuf st) (freeze_arrs (arrs st) (map snd (o_slots (objs st a)))) (narr st)
                     (upd (objs st) a (set_ro (objs st a))) (nobj st)) in *.
    assert (W0 : wf_state st0).
    { split; simpl.
      - intros o Ho k Hk. unfold owned_arrs in Hk. simpl in Hk.
        destruct (Nat.eq_dec o a) as [->|Hn].
        + rewrite upd_eq in Hk. simpl in Hk. apply (W1 a Ho k Hk).
        + rewrite upd_ne in Hk by exact Hn. apply (W1 o Ho k Hk).
      - intros k Hk. destruct (freeze_arrs_fields (arrs st) (map snd (o_slots (objs st a))) k) as (Eq & _).
        rewrite Eq. auto. }
    apply (add_obj_wf st1 st0); auto.
    + apply Wa; [|destruct W0; auto]. intros t v Hin. apply in_map_iff in Hin. destruct Hin as ([t' k] & Eq & Hk).
      assert (Hk' : In k (owned_arrs st a)). { unfold owned_arrs. apply in_map_iff. exists (t', k). auto. }
      inversion Eq; subst. simpl. apply W2. apply (W1 a Ea). exact Hk'.
    + simpl. intros k Hk. apply R in Hk. simpl in Hk. lia.
  - destruct (a <? nobj st) eqn:Ea; [|exact W]. apply Nat.ltb_lt in Ea.
    pose proof (copy_state st a W Ea) as (Wc & _). simpl in Wc. apply Nat.ltb_lt in Ea. rewrite Ea in Wc. exact Wc.
  - split; simpl; auto. intros a Ha. specialize (W2 a Ha). lia.
Qed.

Lemma run_wf : forall l st, wf_state st -> wf_state (run st l).
Proof.
  induction l as [|c l IH]; intros st W; simpl; auto. apply IH. apply step_wf. exact W.
Qed.

(* the theorems therefore apply to every state reachable from the empty heap *)
Corollary reachable_wf l : wf_state (run init l).
Proof. apply run_wf. apply wf_init. Qed.
