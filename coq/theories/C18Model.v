(* C18 model: per-object cache (antimask, corners, slicer, wod, unshrunk) and
   the mutators that clear it - or deliberately do not (qube.py: antimask,
   corners, _slicer, wod, _new_values_, _set_values_, __iadd__/__isub__/__imul__,
   insert_deriv, delete_deriv(s), set_units, as_readonly; indexer.__setitem__).
   Objects are shapeless or 1-D; values are integers. Proof-free. *)
From Coq Require Import List Arith ZArith Bool.
Import ListNotations.

Record wodv := mkw { w_vals : list Z; w_mask : list bool; w_units : option nat; w_ro : bool }.

Record cache := mkc {
  k_anti : option (list bool);
  k_corn : option (option (nat * nat));
  k_slic : option (option (nat * nat));
  k_wod  : option wodv;
  k_unsh : bool }.
Definition empty_cache := mkc None None None None false.

Record obj := mko {
  shaped : bool;                 (* false: shape (); true: shape (n,) *)
  vals : list Z;
  mask : list bool;              (* expanded mask, one entry per element *)
  marr : bool;                   (* representation: true = array, false = one Python bool *)
  derivs : list (nat * list Z);  (* key id -> derivative values *)
  units : option nat;
  ro : bool;
  cch : cache }.

(* what the queries compute from the current fields *)
Definition calc_anti (o : obj) : list bool := map negb (mask o).
Fixpoint first_false (l : list bool) (k : nat) : option nat :=
  match l with [] => None | b :: t => if b then first_false t (S k) else Some k end.
Fixpoint last_false (l : list bool) (k : nat) (acc : option nat) : option nat :=
  match l with [] => acc | b :: t => last_false t (S k) (if b then acc else Some k) end.
Definition calc_corn (o : obj) : option (nat * nat) :=
  if shaped o then
    match first_false (mask o) 0, last_false (mask o) 0 None with
    | Some lo, Some hi => Some (lo, S hi)
    | _, _ => Some (0, 0)
    end
  else None.
Definition calc_wod (o : obj) : wodv := mkw (vals o) (mask o) (units o) (ro o).

Inductive ans :=
| ABools (l : list bool) | ACorn (c : option (nat * nat)) | AWod (w : wodv)
| ASelf | AOk | AErr.

Definition set_cache (o : obj) (c : cache) : obj :=
  mko (shaped o) (vals o) (mask o) (marr o) (derivs o) (units o) (ro o) c.
Definition clear (o : obj) : obj := set_cache o empty_cache.
(* Qube._new_values_: values changed in place, mask unchanged *)
Definition new_values (o : obj) : obj :=
  set_cache o (mkc (k_anti (cch o)) (k_corn (cch o)) (k_slic (cch o)) None false).

(* _find_corners reads self.antimask (and so caches it) when the mask is an array *)
Definition anti_after_corners (o : obj) : option (list bool) :=
  if shaped o && marr o then
    match k_anti (cch o) with Some a => Some a | None => Some (calc_anti o) end
  else k_anti (cch o).

Inductive op :=
| QAnti | QCorn | QSlic | QWod
| MSetInt (k : nat) (v : Z) (m : bool)        (* x[k] = Scalar(v, m) *)
| MSetAll (v : Z) (m : bool)                  (* x[...] = Scalar(v, m) *)
| MAddNum (z : Z) | MMulNum (z : Z)           (* x += z ; x *= z   (number fast path) *)
| MAddObj (vs : list Z) (ms : list bool)      (* x += Scalar(vs, ms), same shape *)
| MInsDeriv (k : nat) (d : list Z)
| MDelDeriv (k : nat)
| MDelDerivs
| MSetUnits (u : option nat)
| MReadonly.

Fixpoint set_nth {A} (l : list A) (k : nat) (x : A) : list A :=
  match l, k with
  | [], _ => []
  | _ :: t, 0 => x :: t
  | h :: t, S k' => h :: set_nth t k' x
  end.
Fixpoint del_key (k : nat) (l : list (nat * list Z)) : list (nat * list Z) :=
  match l with
  | [] => []
  | (k', d) :: t => if Nat.eqb k k' then del_key k t else (k', d) :: del_key k t
  end.
Definition zero_at (k : nat) (d : nat * list Z) := (fst d, set_nth (snd d) k 0%Z).
Fixpoint zip_with {A B C} (f : A -> B -> C) (a : list A) (b : list B) : list C :=
  match a, b with x :: a', y :: b' => f x y :: zip_with f a' b' | _, _ => [] end.

(* one step with the cache enabled: new state and answer *)
Definition step (o : obj) (p : op) : obj * ans :=
  match p with
  | QAnti =>
      match k_anti (cch o) with
      | Some a => (o, ABools a)
      | None => let a := calc_anti o in
                (set_cache o (mkc (Some a) (k_corn (cch o)) (k_slic (cch o)) (k_wod (cch o)) (k_unsh (cch o))),
                 ABools a)
      end
  | QCorn =>
      match k_corn (cch o) with
      | Some c => (o, ACorn c)
      | None => let c := calc_corn o in
                (set_cache o (mkc (anti_after_corners o) (Some c) (k_slic (cch o)) (k_wod (cch o)) (k_unsh (cch o))),
                 ACorn c)
      end
  | QSlic =>
      match k_slic (cch o) with
      | Some c => (o, ACorn c)
      | None =>
          (* _slicer reads self.corners (which caches) and then caches itself *)
          let c := match k_corn (cch o) with Some c => c | None => calc_corn o end in
          let a := match k_corn (cch o) with Some _ => k_anti (cch o) | None => anti_after_corners o end in
          (set_cache o (mkc a (Some c) (Some c) (k_wod (cch o)) (k_unsh (cch o))),
           ACorn c)
      end
  | QWod =>
      match derivs o with
      | [] => (o, ASelf)
      | _ =>
        match k_wod (cch o) with
        | Some w => (o, AWod w)
        | None => let w := calc_wod o in
                  (set_cache o (mkc (k_anti (cch o)) (k_corn (cch o)) (k_slic (cch o)) (Some w) (k_unsh (cch o))),
                   AWod w)
        end
      end
  | MSetInt k v m =>
      if ro o then (o, AErr)
      else if negb (shaped o) then (o, AErr)
      else if negb (Nat.ltb k (length (vals o))) then (o, AOk)   (* out of range: nothing selected *)
      else (mko true (set_nth (vals o) k v) (set_nth (mask o) k m)
                (* the mask stays one bool only if it was one and the value's is the same *)
                (marr o || negb (Bool.eqb (hd false (mask o)) m))
                (map (zero_at k) (derivs o)) (units o) false empty_cache, AOk)
  | MSetAll v m =>
      if ro o then (o, AErr)
      else (mko (shaped o) (map (fun _ => v) (vals o)) (map (fun _ => m) (mask o))
                (* a shaped target goes through the general path: its mask stays one bool
                   only if it was one and the value's is the same; a shapeless target is replaced *)
                (if shaped o then marr o || negb (Bool.eqb (hd false (mask o)) m) else false)
                (map (fun d => (fst d, map (fun _ => 0%Z) (snd d))) (derivs o))
                (units o) false empty_cache, AOk)
  | MAddNum z =>
      if ro o then (o, AErr)
      else (new_values (mko (shaped o) (map (Z.add z) (vals o)) (mask o) (marr o) (derivs o)
                            (units o) false (cch o)), AOk)
  | MMulNum z =>
      if ro o then (o, AErr)
      else
        (* the derivatives are replaced through insert_derivs, which clears the cache; without
           derivatives only _new_values_ runs *)
        let o' := mko (shaped o) (map (Z.mul z) (vals o)) (mask o) (marr o)
                      (map (fun d => (fst d, map (Z.mul z) (snd d))) (derivs o))
                      (units o) false (cch o) in
        (match derivs o with [] => new_values o' | _ => clear o' end, AOk)
  | MAddObj vs ms =>
      if ro o then (o, AErr)
      else if negb (Nat.eqb (length vs) (length (vals o)) && Nat.eqb (length ms) (length (vals o)))
      then (o, AErr)
      else (mko (shaped o) (zip_with Z.add (vals o) vs) (zip_with orb (mask o) ms)
                (* Qube.or_: a scalar True wins; otherwise the argument's array mask makes an array *)
                (if marr o then true else if hd false (mask o) then false else shaped o)
                (derivs o) (units o) false empty_cache, AOk)
  | MInsDeriv k d =>
      if negb (Nat.eqb (length d) (length (vals o))) then (o, AErr)
      else (mko (shaped o) (vals o) (mask o) (marr o) ((k, d) :: del_key k (derivs o))
                (units o) (ro o) empty_cache, AOk)
  | MDelDeriv k =>
      if ro o then (o, AErr)
      else (mko (shaped o) (vals o) (mask o) (marr o) (del_key k (derivs o)) (units o) false empty_cache, AOk)
  | MDelDerivs =>
      if ro o then (o, AErr)
      else (mko (shaped o) (vals o) (mask o) (marr o) [] (units o) false empty_cache, AOk)
  | MSetUnits u =>
      if ro o then (o, AErr)
      else (mko (shaped o) (vals o) (mask o) (marr o) (derivs o) u false empty_cache, AOk)
  | MReadonly =>
      if ro o then (o, AOk)
      else (mko (shaped o) (vals o) (mask o) (marr o) (derivs o) (units o) true
                (mkc (k_anti (cch o)) (k_corn (cch o)) (k_slic (cch o))
                     (match k_wod (cch o) with
                      | Some w => Some (mkw (w_vals w) (w_mask w) (w_units w) true)
                      | None => None end)
                     (k_unsh (cch o))), AOk)
  end.

(* the same machine with Qube.DISABLE_CACHE: queries never read the cache *)
Definition step_nc (o : obj) (p : op) : obj * ans :=
  match p with
  | QAnti => (o, ABools (calc_anti o))
  | QCorn => (o, ACorn (calc_corn o))
  | QSlic => (o, ACorn (calc_corn o))
  | QWod => match derivs o with [] => (o, ASelf) | _ => (o, AWod (calc_wod o)) end
  | _ => let r := step o p in (clear (fst r), snd r)
  end.

Fixpoint run (f : obj -> op -> obj * ans) (o : obj) (ps : list op) : obj * list ans :=
  match ps with
  | [] => (o, [])
  | p :: t => let r := f o p in
              let r' := run f (fst r) t in
              (fst r', snd r :: snd r')
  end.

(* cache coherence: every cached entry equals what would be recomputed now *)
Definition coh (o : obj) : Prop :=
  (forall a, k_anti (cch o) = Some a -> a = calc_anti o) /\
  (forall c, k_corn (cch o) = Some c -> c = calc_corn o) /\
  (forall c, k_slic (cch o) = Some c -> c = calc_corn o) /\
  (forall w, k_wod (cch o) = Some w -> w = calc_wod o).

(* ---- observation for the correspondence ---- *)
(* which keys are present after each step, and the answers *)
Definition keys (o : obj) : list bool :=
  [ match k_anti (cch o) with Some _ => true | None => false end;
    match k_corn (cch o) with Some _ => true | None => false end;
    match k_slic (cch o) with Some _ => true | None => false end;
    match k_wod (cch o) with Some _ => true | None => false end ].

Fixpoint trace (o : obj) (ps : list op) : list (ans * list bool) :=
  match ps with
  | [] => []
  | p :: t => let r := step o p in (snd r, keys (fst r)) :: trace (fst r) t
  end.

Definition opt_eqb {A} (e : A -> A -> bool) (x y : option A) : bool :=
  match x, y with Some a, Some b => e a b | None, None => true | _, _ => false end.
Fixpoint lb_eqb (a b : list bool) : bool :=
  match a, b with [], [] => true | x :: a', y :: b' => Bool.eqb x y && lb_eqb a' b' | _, _ => false end.
Fixpoint lz_eqb (a b : list Z) : bool :=
  match a, b with [], [] => true | x :: a', y :: b' => Z.eqb x y && lz_eqb a' b' | _, _ => false end.
Definition pair_eqb (p q : nat * nat) := Nat.eqb (fst p) (fst q) && Nat.eqb (snd p) (snd q).
(* values under the mask are not observable *)
Fixpoint vis_eqb (v1 : list Z) (m1 : list bool) (v2 : list Z) (m2 : list bool) : bool :=
  match v1, m1, v2, m2 with
  | [], [], [], [] => true
  | x :: v1', a :: m1', y :: v2', b :: m2' =>
      Bool.eqb a b && (a || Z.eqb x y) && vis_eqb v1' m1' v2' m2'
  | _, _, _, _ => false
  end.
Definition wod_eqb (w1 w2 : wodv) : bool :=
  vis_eqb (w_vals w1) (w_mask w1) (w_vals w2) (w_mask w2)
  && opt_eqb Nat.eqb (w_units w1) (w_units w2) && Bool.eqb (w_ro w1) (w_ro w2).
Definition ans_eqb (a b : ans) : bool :=
  match a, b with
  | ABools x, ABools y => lb_eqb x y
  | ACorn x, ACorn y => opt_eqb pair_eqb x y
  | AWod x, AWod y => wod_eqb x y
  | ASelf, ASelf | AOk, AOk | AErr, AErr => true
  | _, _ => false
  end.
Fixpoint trace_eqb (a b : list (ans * list bool)) : bool :=
  match a, b with
  | [], [] => true
  | (x, k) :: a', (y, k') :: b' => ans_eqb x y && lb_eqb k k' && trace_eqb a' b'
  | _, _ => false
  end.

(* a case: initial object, history, and what the implementation answered *)
Definition case18 := (obj * list op)%type.
Definition mk_obj (sh : bool) (v : list Z) (m : list bool) (ma : bool) (d : list (nat * list Z))
                  (u : option nat) (r : bool) : obj := mko sh v m ma d u r empty_cache.
Fixpoint mism_from (k : nat) (l : list (case18 * list (ans * list bool))) : list nat :=
  match l with
  | [] => []
  | ((o, ps), t) :: rest =>
      if trace_eqb (trace o ps) t then mism_from (S k) rest else k :: mism_from (S k) rest
  end.
Definition mismatches := mism_from 0.
