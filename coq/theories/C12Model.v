(* C12 model.  The Units algebra itself is NOT written here: it is regenerated from
   /repo/polymath/units.py into coq/gen/Gen_units.v on every run (PMGen.Gen_units).
   This file adds, proof-free:
     - the case language of the correspondence and [run12] / [mismatches];
     - the hand-written object-level rules (which Units helper each operator of
       qube.py / scalar.py / math_ops.py applies to the operands' units);
     - the value-level model of set_units / without_units / into_units / from_units.
   Compiled by harness/c12.py after Gen_units.v (it is not in coq/parts). *)
From Coq Require Import ZArith List Bool String QArith.
From PM Require Import C12Pre.
From PMGen Require Import Gen_units.
Import ListNotations.
Open Scope Z_scope.

Definition is_some {A} (o : option A) : bool := match o with Some _ => true | None => false end.
Definition is_none {A} (o : option A) : bool := negb (is_some o).

(* the static helpers with the identity tests filled in as they are at run time:
   `result is arg1` holds exactly when arg2 is None and arg1 is not, etc. *)
Definition mul_units_m (a b : option units) : res (option units) :=
  Units_mul_units (is_some a && is_none b) (is_none a && is_some b) a b.
Definition div_units_m (a b : option units) : res (option units) :=
  Units_div_units (is_some a && is_none b) false a b.

(* ---- object-level rules (hand-written from qube.py, scalar.py, math_ops.py) ---- *)
Inductive oop :=
  | OAdd        (* + - += -= : can_match else ValueError; units = self or arg *)
  | OOrder      (* < <= > >= : require_compatible *)
  | OEq         (* == of equal values: True iff can_match; never raises *)
  | OMul        (* * *= dot cross outer element_mul, matrix products : mul_units *)
  | ODiv        (* / /= // % element_div : div_units *)
  | OPow (p2 : Z)   (* Scalar ** (p2/2), reciprocal, Matrix.inverse : units_power *)
  | OSqrt       (* Scalar.sqrt : sqrt_units *)
  | OKeep       (* norm abs neg sum mean getitem : units unchanged *)
  | OAngleFn    (* sin cos tan exp : require_angle, result without units *)
  | OPureFn     (* arcsin arccos arctan int frac : require_unitless, result without units *)
  | OAtan2      (* arctan2 : require_compatible, result without units *)
  | ONoUnits.   (* a class with UNITS_OK = False given units : TypeError *)

Definition or_units (a b : option units) : option units :=
  match a with Some _ => a | None => b end.

Definition obj_rule (op : oop) (a b : option units) : obs :=
  match op with
  | OAdd => obs_of_ounits (bind (Units_can_match a b) (fun ok =>
              if ok then Ok (or_units a b) else Err EValue))
  | OOrder => obs_of_ounits (bind (Units_require_compatible a b) (fun _ => Ok None))
  | OEq => obs_of_bool (Units_can_match a b)
  | OMul => obs_of_ounits (mul_units_m a b)
  | ODiv => obs_of_ounits (div_units_m a b)
  | OPow p2 => if p2 =? 0 then ONone       (* Scalar._power_0: ones without units *)
               else obs_of_ounits (Units_units_power a p2)
  | OSqrt => obs_of_ounits (Units_sqrt_units a)
  | OKeep => obs_of_ounits (Ok a)
  | OAngleFn => obs_of_ounits (bind (Units_require_angle a) (fun _ => Ok None))
  | OPureFn => obs_of_ounits (bind (Units_require_unitless a) (fun _ => Ok None))
  | OAtan2 => obs_of_ounits (bind (Units_require_compatible a b) (fun _ => Ok None))
  | ONoUnits => match a with Some _ => OErr EType | None => ONone end
  end.

(* ---- correspondence cases ---- *)
Inductive ucase :=
  | KNamed (n : string)
  | KInit (e t : Z3)
  | KCopy (a : units)
  | KMul (a b : units) | KDiv (a b : units)
  | KPow (a : units) (p2 : Z) | KSqrt (a : units)
  | KMulR (a : units) (z : Z) | KRMulR (a : units) (z : Z)
  | KDivR (a : units) (z : Z) | KRDivR (a : units) (z : Z)
  | KMulU (a b : option units) | KDivU (a b : option units)
  | KPowU (a : option units) (p2 : Z) | KSqrtU (a : option units)
  | KCan (a b : option units) | KDo (a b : option units)
  | KAngle (a : option units) | KUnitless (a : option units)
  | KObj (op : oop) (a b : option units).

Definition run12 (c : ucase) : obs :=
  match c with
  | KNamed n => obs_of_units (named_value n)
  | KInit e t => obs_of_units (Units___init__ e t)
  | KCopy a => obs_of_units (Units_copy a)
  | KMul a b => obs_of_units (Units___mul__ a (AUnits b))
  | KDiv a b => obs_of_units (Units___truediv__ a (AUnits b))
  | KPow a p2 => obs_of_units (Units___pow__ a p2)
  | KSqrt a => obs_of_units (Units_sqrt a)
  | KMulR a z => obs_of_units (Units___mul__ a (AReal z))
  | KRMulR a z => obs_of_units (Units___rmul__ a (AReal z))
  | KDivR a z => obs_of_units (Units___truediv__ a (AReal z))
  | KRDivR a z => obs_of_units (Units___rtruediv__ a (AReal z))
  | KMulU a b => obs_of_ounits (mul_units_m a b)
  | KDivU a b => obs_of_ounits (div_units_m a b)
  | KPowU a p2 => obs_of_ounits (Units_units_power a p2)
  | KSqrtU a => obs_of_ounits (Units_sqrt_units a)
  | KCan a b => obs_of_bool (Units_can_match a b)
  | KDo a b => obs_of_bool (Units_do_match a b)
  | KAngle a => obs_of_bool (Units_is_angle a)
  | KUnitless a => obs_of_bool (Units_is_unitless a)
  | KObj op a b => obj_rule op a b
  end.

Fixpoint mism_from (k : nat) (l : list (ucase * obs)) : list nat :=
  match l with
  | [] => []
  | (c, o) :: t => if obs_eqb (run12 c) o then mism_from (S k) t else k :: mism_from (S k) t
  end.
Definition mismatches := mism_from 0.

(* ---- unit expressions over the named table ---- *)
Inductive uexpr :=
  | XNamed (n : string)
  | XMul (a b : uexpr) | XDiv (a b : uexpr)
  | XPow (a : uexpr) (p : Z)          (* integer power *)
  | XSqrt (a : uexpr).
Fixpoint ueval (x : uexpr) : res units :=
  match x with
  | XNamed n => named_value n
  | XMul a b => bind (ueval a) (fun u => bind (ueval b) (fun v => Units___mul__ u (AUnits v)))
  | XDiv a b => bind (ueval a) (fun u => bind (ueval b) (fun v => Units___truediv__ u (AUnits v)))
  | XPow a p => bind (ueval a) (fun u => Units___pow__ u (2 * p))
  | XSqrt a => bind (ueval a) Units_sqrt
  end.

(* ---- values: stored in standard units; units are a label ---- *)
Open Scope Q_scope.
Record vobj := mkV { vvals : list Q; vderiv : list Q; vunits : option units }.
Definition set_units_v (u : option units) (q : vobj) : vobj := mkV (vvals q) (vderiv q) u.
Definition without_units_v (q : vobj) : vobj := mkV (vvals q) (vderiv q) None.
Definition ctor_v (vals der : list Q) (u : option units) : vobj := mkV vals der u.
(* factor = (numer/denom) * pi^k with pi an abstract non-zero number *)
Definition qfactor (pi : Q) (u : units) : Q :=
  (inject_Z (t0 (utrip u)) / inject_Z (t1 (utrip u))) * Qpower pi (t2 (utrip u)).
Definition ofactor (pi : Q) (u : option units) : Q :=
  match u with Some u => qfactor pi u | None => 1 end.
Definition into_units_v (pi : Q) (q : vobj) : vobj :=
  mkV (map (fun x => / ofactor pi (vunits q) * x) (vvals q))
      (map (fun x => / ofactor pi (vunits q) * x) (vderiv q)) (vunits q).
Definition from_units_v (pi : Q) (q : vobj) : vobj :=
  mkV (map (fun x => ofactor pi (vunits q) * x) (vvals q))
      (map (fun x => ofactor pi (vunits q) * x) (vderiv q)) (vunits q).
