(* Axis plans: what the axis-moving methods of polymath do, as regenerated from the source on every run by
   tools/regen/shape_ast.py (-> coq/gen/Gen_shape.v).

   A method (shaper.swap_axes / roll_axis / move_axis, item_ops.transpose_numer / transpose_denom) is read as

       <integer prologue: normalisation of the axis arguments, range checks that raise>
       new_values = <one NumPy axis permutation of self._values_>
       new_mask   = <the same on self._mask_, or the mask as it is>
       obj        = <same class, example=self, read-only flag copied>
       derivatives: <the same method, recursive=False, with these arguments>

   and becomes a total function of the integer arguments into `plan`.  The NumPy axis functions are interpreted by
   the permutations C15Model already uses (swapP, rollP, moveP), so an obligation about a plan is an obligation about
   the relabeling C15's theorems speak of.  Proof-free. *)
From Coq Require Import List Arith ZArith Bool.
From PM Require Import Base Mask C15Model.
Import ListNotations.

(* the distinct entries of a list (len(set(l))) *)
Fixpoint zdistinct (l : list Z) : list Z :=
  match l with [] => [] | x :: t => if existsb (Z.eqb x) t then zdistinct t else x :: zdistinct t end.

Inductive nop :=
| NId                                   (* the array itself *)
| NSwap (a b : Z)                       (* np.swapaxes(x, a, b) / x.swapaxes(a, b) *)
| NRoll (a b : Z)                       (* np.rollaxis(x, a, b) *)
| NMove (s d : list Z).                 (* np.moveaxis(x, s, d) *)

Inductive plan :=
| PErr                                  (* raises *)
| PSelf                                 (* returns self (or self.wod) *)
| PRel (pad : Z) (v m : nop) (dargs : list (list Z)).
        (* pad unit axes put in front (self.reshape((rank - len) * (1,) + shape)), then v on the values array and m
           on the mask array; every derivative gets the same method with the arguments dargs *)

(* the permutation NumPy applies for an operation on an array of rank n: out.shape[k] = in.shape[P[k]];
   None = NumPy raises *)
Definition swap_perm (a b : Z) (n : nat) : option (list nat) :=
  match norm_axis n a, norm_axis n b with
  | Some a', Some b' => Some (swapP a' b' n)
  | _, _ => None
  end.
Definition roll_perm (axis start : Z) (n : nat) : option (list nat) :=
  match norm_axis n axis with
  | None => None
  | Some ax => match roll_start n ax start with
               | None => None
               | Some st => Some (rollP ax st n)
               end
  end.
Definition move_perm (src dst : list Z) (n : nat) : option (list nat) :=
  match norm_axes n src, norm_axes n dst with
  | Some s', Some d' =>
      if nodupb s' && nodupb d' && Nat.eqb (length s') (length d') then Some (moveP s' d' n) else None
  | _, _ => None
  end.
Definition nop_perm (o : nop) (n : nat) : option (list nat) :=
  match o with
  | NId => Some (seq 0 n)
  | NSwap a b => swap_perm a b n
  | NRoll a b => roll_perm a b n
  | NMove s d => move_perm s d n
  end.

Fixpoint zlist_eq (a b : list Z) : bool :=
  match a, b with
  | [], [] => true
  | x :: a', y :: b' => Z.eqb x y && zlist_eq a' b'
  | _, _ => false
  end.
Definition nop_eqb (x y : nop) : bool :=
  match x, y with
  | NId, NId => true
  | NSwap a b, NSwap c d => Z.eqb a c && Z.eqb b d
  | NRoll a b, NRoll c d => Z.eqb a c && Z.eqb b d
  | NMove a b, NMove c d => zlist_eq a c && zlist_eq b d
  | _, _ => false
  end.

(* every axis argument of the operation is a plain leading-axis number: 0 <= a < n (for the start of a roll <= n).
   Only then does the same call on the values array (rank n + item rank) leave the item axes alone. *)
Definition zin (n : nat) (a : Z) : bool := Z.leb 0 a && Z.ltb a (Z.of_nat n).
Definition nop_inrange (o : nop) (n : nat) : bool :=
  match o with
  | NId => true
  | NSwap a b => zin n a && zin n b
  | NRoll a b => zin n a && Z.leb 0 b && Z.leb b (Z.of_nat n)
  | NMove s d => forallb (zin n) s && forallb (zin n) d
  end.

(* what a leading-axis plan does to the leading axes of an object of leading rank n *)
Inductive pres := RRaise | RPerm (pad : nat) (P : list nat) | RBad.
Definition lead_plan (p : plan) (n : nat) : pres :=
  match p with
  | PErr => RRaise
  | PSelf => RPerm 0 (seq 0 n)
  | PRel pad v m _ =>
      if Z.ltb pad 0 then RBad else
      let n' := n + Z.to_nat pad in
      if nop_eqb v m && nop_inrange v n'
      then match nop_perm v n' with Some P => RPerm (Z.to_nat pad) P | None => RBad end
      else RBad
  end.
Definition plan_dargs (p : plan) : list (list Z) :=
  match p with PRel _ _ _ d => d | _ => [] end.

(* the specification side, from C15Model: with_rank / np_swapaxes / np_rollaxis / np_moveaxis as permutations *)
Definition spec_swap (a b : Z) (n : nat) : pres :=
  match swap_perm a b n with None => RRaise | Some P => RPerm 0 P end.
Definition spec_ranked (f : nat -> option (list nat)) (rank n : nat) : pres :=
  match eff_rank n rank with
  | None => RRaise
  | Some r => match f r with
              | None => RRaise
              | Some P => match n with 0 => RPerm 0 [] | _ => RPerm (r - n) P end
              end
  end.

Definition perm_of (r : pres) : option (list nat) := match r with RPerm _ P => Some P | _ => None end.

(* the effective rank (rank=None is 0; "rank or len(shape)"; at least 1) as the code computes it on integers *)
Definition zrank (n rank : Z) : option Z :=
  let r0 := (if rank =? 0 then n else rank)%Z in
  if (r0 <? n)%Z then None else Some (if r0 =? 0 then 1 else r0)%Z.
Definition zout (r : Z) (x : Z) : bool := (Z.ltb x (- r) || Z.geb x r)%bool.

(* item-axis plans (transpose_numer / transpose_denom): the values array has rank n + nr + dr, the mask is untouched *)
Definition item_plan (p : plan) (n nr dr : nat) : pres :=
  match p with
  | PErr => RRaise
  | PSelf => RPerm 0 (seq 0 (n + nr + dr))
  | PRel pad v m _ =>
      if negb (Z.eqb pad 0) then RBad else
      match m with
      | NId => match nop_perm v (n + nr + dr) with Some P => RPerm 0 P | None => RBad end
      | _ => RBad
      end
  end.
Definition spec_item_swap (a b : Z) (n off k tail : nat) : pres :=
  match norm_axis k a, norm_axis k b with
  | Some a', Some b' => RPerm 0 (seq 0 (n + off) ++ map (fun x => n + off + x) (swapP a' b' k) ++ seq (n + off + k) tail)
  | _, _ => RRaise
  end.
