(* C01 / C02 model: how masks travel through arithmetic operators, math functions
   and products (qube.py __add__ ... __pow__, _div_by_scalar, mask_where;
   scalar.py sqrt/log/arcsin/reciprocal/__pow__; vector.py unit/proj/perp/sep/
   element_div; matrix.py inverse; quaternion.py reciprocal/to_matrix3;
   matrix3.py rotation constructors) and where each operation is undefined.
   Proof-free: the model must still run when a proof breaks.

   An operand is a leading shape, an item (list of numbers) per leading index and a
   mask representation. Numbers are stored as 2*value in Z (the generators use
   multiples of 1/2), so every domain test of the code (== 0, < 0, <= 0, |x| > 1,
   det == 0, "exponent is an integer") is exact. What the model computes is the
   MASK of the result; numeric results are not modelled (C04/C16 do that). *)
From Coq Require Import List Arith ZArith Bool.
From PM Require Import Base Mask.
Import ListNotations.
Open Scope Z_scope.

Record opnd := mko { osh : shape; oval : mi -> list Z; omask : mrep; onum : bool }.

(* ---- domain predicates on items (all values doubled) ---- *)
Definition hdz (l : list Z) : Z := match l with x :: _ => x | [] => 0 end.
Definition all_zero (l : list Z) : bool := forallb (Z.eqb 0) l.
Definition any_zero (l : list Z) : bool := existsb (Z.eqb 0) l.
Definition det (l : list Z) : Z :=
  match l with
  | [a; b; c; d] => a * d - b * c
  | [a; b; c; d; e; f; g; h; i] =>
      a * (e * i - f * h) - b * (d * i - f * g) + c * (d * h - e * g)
  | _ => 1
  end.
Definition cross_zero (a b : list Z) : bool :=
  match a, b with
  | [a0; a1], [b0; b1] => (a0 * b1 - a1 * b0 =? 0)
  | [a0; a1; a2], [b0; b1; b2] =>
      (a1 * b2 - a2 * b1 =? 0) && (a2 * b0 - a0 * b2 =? 0) && (a0 * b1 - a1 * b0 =? 0)
  | _, _ => false
  end.
(* x ** p undefined: 0 to a negative power, negative to a non-integer power
   (p doubled: non-integer <-> odd) *)
Definition pow_undef (x p : Z) : bool := ((x =? 0) && (p <? 0)) || ((x <? 0) && Z.odd p).

(* ---- mask plumbing ---- *)
Definition any_over (s : shape) (c : mi -> bool) : bool := existsb c (all_mi s).

(* Qube.or_(mask, extra) where [extra] is a freshly computed boolean array *)
Definition or_arr (m : mrep) (c : mi -> bool) : mrep :=
  match m with
  | MS true => MS true
  | MS false => MA c
  | MA f => MA (fun i => f i || c i)
  end.
(* "if np.any(extra): mask = Qube.or_(mask, extra)" *)
Definition or_if_any (s : shape) (m : mrep) (c : mi -> bool) : mrep :=
  if any_over s c then or_arr m c else m.
(* mask_where(cond, replace=...): unchanged object when nothing matches; a
   shapeless object becomes entirely masked; otherwise remask_or *)
Definition mask_where (s : shape) (m : mrep) (c : mi -> bool) : mrep :=
  if any_over s c then
    match s with
    | [] => MS true
    | _ => MA (fun i => mget m i || c i)
    end
  else m.
(* Scalar.arcsin / arccos: temp_mask = out of domain; np.bool_ True for a shapeless
   operand (is_one_true) else Qube.or_ *)
Definition arc_mask (s : shape) (m : mrep) (c : mi -> bool) : mrep :=
  if any_over s c then
    match s with
    | [] => MS true
    | _ => or_arr m c
    end
  else m.
(* Qube.broadcast: the mask seen from the broadcast shape (a single bool stays a bool) *)
Definition bcast_mask (m : mrep) (s : shape) : mrep :=
  match m with MS b => MS b | MA f => MA (fun r => f (bproj s r)) end.

(* ---- unary operations ---- *)
Inductive op1 :=
| OPass      (* - + abs sin cos tan arctan exp sign int frac norm norm_sq conj transpose,
                Matrix3.reciprocal, x/y/z_rotation, axis_rotation: mask passes through *)
| OSqrt | OLog | ORecip     (* mask_where_lt(0,1) / mask_where_le(0,1) / mask_where_eq(0,1) *)
| OArc                      (* arcsin, arccos *)
| OUnit                     (* v / v.norm(): unit, with_norm, Quaternion.reciprocal *)
| OInverse                  (* Matrix.inverse: det == 0 *)
| OToMat3.                  (* Quaternion.to_matrix3: zero norm *)

Definition undef1 (o : op1) (x : list Z) : bool :=
  match o with
  | OPass => false
  | OSqrt => hdz x <? 0
  | OLog => hdz x <=? 0
  | ORecip => hdz x =? 0
  | OArc => (hdz x <? -2) || (2 <? hdz x)
  | OUnit => all_zero x
  | OInverse => det x =? 0
  | OToMat3 => all_zero x
  end.

Definition mask1 (o : op1) (a : opnd) : mrep :=
  let s := osh a in
  let m := omask a in
  let c := fun i => undef1 o (oval a i) in
  match o with
  | OPass => m
  | OSqrt | OLog | ORecip => mask_where s m c
  | OArc => arc_mask s m c
  | OUnit => or_m m (mask_where s m c) s s      (* _div_by_scalar(self, norm) *)
  | OInverse | OToMat3 => or_if_any s m c
  end.

(* ---- binary operations ---- *)
Inductive op2 :=
| OAdd | OSub | OMul | ODot      (* Qube.or_ of the two masks: + - * arctan2 dot cross outer
                                    element_mul, matrix and quaternion products, pole_rotation *)
| OAddNum | OMulNum              (* number fast path: clone, mask untouched *)
| ODiv | OFloordiv               (* divisor.mask_where_eq(0,1) then or_ (resp. |) *)
| ODivNum                        (* _div_by_number/_mod_by_number/in-place by a number: n == 0 masks all *)
| OPow                           (* Scalar ** Scalar *)
| OPowNum                        (* Scalar ** number (easy powers first) *)
| OXPowM | OXPowQ | OXPowR       (* Qube.__pow__ integer power of Matrix / Quaternion / Matrix3 *)
| OElDiv                         (* Vector.element_div *)
| OUcross | OProj | OPerp | OSep (* compositions in vector.py *)
| OMatDiv | OQDiv                (* a * b.reciprocal() *)
| OFromRot                       (* Quaternion.from_rotation(angle, axis) *)
| OTwovec.                       (* Matrix3.twovec *)

Definition undef2 (o : op2) (x y : list Z) : bool :=
  match o with
  | OAdd | OSub | OMul | ODot | OAddNum | OMulNum | OXPowR => false
  | ODiv | OFloordiv | ODivNum => hdz y =? 0
  | OPow | OPowNum => pow_undef (hdz x) (hdz y)
  | OXPowM => (hdz y <? 0) && (det x =? 0)
  | OXPowQ => (hdz y <? 0) && all_zero x
  | OElDiv => any_zero y
  | OUcross => cross_zero x y
  | OProj | OPerp | OQDiv | OFromRot => all_zero y
  | OSep => all_zero x || all_zero y
  | OMatDiv => det y =? 0
  | OTwovec => all_zero x || cross_zero x y
  end.

(* result of a model operation: leading shape and mask, or an error *)
Inductive res := RErr | ROk (s : shape) (m : mrep).

Definition unit_mask (s : shape) (m : mrep) (v : mi -> list Z) : mrep :=
  or_m m (mask_where s m (fun i => all_zero (v i))) s s.

Definition mask2 (o : op2) (a b : opnd) (s : shape) : mrep :=
  let sa := osh a in let sb := osh b in
  let ma := omask a in let mb := omask b in
  let pa := fun r => oval a (bproj sa r) in
  let pb := fun r => oval b (bproj sb r) in
  match o with
  | OAdd | OSub | OMul | ODot => or_m ma mb sa sb
  | OAddNum | OMulNum | OXPowR => ma
  | ODiv | OFloordiv =>
      or_m ma (mask_where sb mb (fun i => hdz (oval b i) =? 0)) sa sb
  | ODivNum => if hdz (oval b []) =? 0 then MS true else ma
  | OPow =>
      match sa, sb with
      | [], [] => if pow_undef (hdz (oval a [])) (hdz (oval b [])) then MS true     (* masked_single *)
                  else or_m ma mb sa sb
      | _, _ => or_if_any s (or_m ma mb sa sb) (fun r => pow_undef (hdz (pa r)) (hdz (pb r)))
      end
  | OPowNum =>
      let p := hdz (oval b []) in
      if (p =? 0) || (p =? 2) || (p =? 4) || (p =? 6) || (p =? 8) then ma       (* _power_0 .. _power_4 *)
      else if p =? -2 then mask_where sa ma (fun i => hdz (oval a i) =? 0)      (* reciprocal *)
      else if p =? 1 then mask_where sa ma (fun i => hdz (oval a i) <? 0)       (* sqrt *)
      else if p =? -1 then                                                      (* sqrt().reciprocal() *)
        let m1 := mask_where sa ma (fun i => hdz (oval a i) <? 0) in
        mask_where sa m1 (fun i => hdz (oval a i) =? 0)
      else match sa with
           | [] => if pow_undef (hdz (oval a [])) p then MS true else or_m ma mb sa sb
           | _ => or_if_any s (or_m ma mb sa sb) (fun r => pow_undef (hdz (pa r)) p)
           end
  | OXPowM => if hdz (oval b []) <? 0 then or_if_any sa ma (fun i => det (oval a i) =? 0) else ma
  | OXPowQ => if hdz (oval b []) <? 0 then unit_mask sa ma (oval a) else ma
  | OElDiv => or_m ma (or_if_any sb mb (fun i => any_zero (oval b i))) sa sb
  | OUcross =>
      let m0 := or_m ma mb sa sb in
      or_m m0 (mask_where s m0 (fun r => cross_zero (pa r) (pb r))) s s
  | OProj =>
      let mbu := unit_mask sb mb (oval b) in
      or_m mbu (or_m ma mbu sa sb) sb s
  | OPerp =>
      let mbu := unit_mask sb mb (oval b) in
      or_m ma (or_m mbu (or_m ma mbu sa sb) sb s) sa s
  | OSep => or_m (unit_mask sa ma (oval a)) (unit_mask sb mb (oval b)) sa sb
  | OMatDiv => or_m ma (or_if_any sb mb (fun i => det (oval b i) =? 0)) sa sb
  | OQDiv => or_m ma (unit_mask sb mb (oval b)) sa sb
  | OFromRot =>
      (* both broadcast to s first; (sin / |v|) * v, then from_parts(cos, v) *)
      let ma' := bcast_mask ma sa in
      let mb' := bcast_mask mb sb in
      let q := or_m ma' (mask_where s mb' (fun r => all_zero (pb r))) s s in
      or_m ma' (or_m q mb' s s) s s
  | OTwovec =>
      (* unit1 = v1.unit(); unit3 = unit1.ucross(v2); the mask of unit3 is included *)
      let m1 := unit_mask sa ma (oval a) in
      let m0 := or_m m1 mb sa sb in
      or_m m0 (mask_where s m0 (fun r => cross_zero (pa r) (pb r))) s s
  end.

(* shape rule: operands broadcast; number fast paths and unary-on-a operations keep
   the shape of a; an in-place operation cannot change the shape of a *)
Definition keeps_a_shape (o : op2) : bool :=
  match o with OAddNum | OMulNum | ODivNum | OPowNum | OXPowM | OXPowQ | OXPowR => true | _ => false end.

Definition ew2 (o : op2) (inplace : bool) (a b : opnd) : res :=
  if keeps_a_shape o then ROk (osh a) (mask2 o a b (osh a))
  else match bshape (osh a) (osh b) with
       | None => RErr
       | Some s => if inplace && negb (shape_eqb s (osh a)) then RErr
                   else ROk s (mask2 o a b s)
       end.
Definition ew1 (o : op1) (a : opnd) : res := ROk (osh a) (mask1 o a).
(* from_euler(ai, aj, ak): Qube.or_ of three masks *)
Definition ew3 (a b c : opnd) : res :=
  match bshape (osh b) (osh c) with
  | None => RErr
  | Some sbc =>
      match bshape (osh a) sbc with
      | None => RErr
      | Some s =>
          (* Qube.broadcast(ai, aj, ak) first, then Qube.or_(mi, mj, mk) = or_(mi, or_(mj, mk)) *)
          ROk s (or_m (bcast_mask (omask a) (osh a))
                      (or_m (bcast_mask (omask b) (osh b)) (bcast_mask (omask c) (osh c)) s s) s s)
      end
  end.

(* ---- the reference (L7): written without looking at the code paths ---- *)
Definition ref1 (o : op1) (a : opnd) (r : mi) : bool :=
  mget (omask a) r || undef1 o (oval a r).
Definition ref2 (o : op2) (a b : opnd) (r : mi) : bool :=
  mget (omask a) (bproj (osh a) r) || mget (omask b) (bproj (osh b) r)
  || undef2 o (oval a (bproj (osh a) r)) (oval b (bproj (osh b) r)).
Definition ref3 (a b c : opnd) (r : mi) : bool :=
  mget (omask a) (bproj (osh a) r) || mget (omask b) (bproj (osh b) r)
  || mget (omask c) (bproj (osh c) r).

(* ---- C02: sanitised operands and the special-value class algebra ---- *)
(* value handed to the kernel: the replacement where undefined, the original elsewhere *)
Definition sanitise (undef : bool) (repl x : Z) : Z := if undef then repl else x.
Definition kernel_arg1 (o : op1) (x : Z) : Z :=
  match o with
  | OSqrt | OLog | ORecip => sanitise (undef1 o [x]) 2 x       (* replace by 1 *)
  | OArc => sanitise (undef1 o [x]) 0 x                        (* replace by 0 *)
  | _ => x
  end.
Definition kernel_divisor (y : Z) : Z := sanitise (y =? 0) 2 y.      (* mask_where_eq(0, 1) *)

(* IEEE special-value classes of a double: NaN, the infinities, and finite values
   split at the domain boundaries -1, 0, 1 that the guarded kernels care about *)
Inductive fclass := Nan | NInf | NBig | NOne | NSmall | Zero | PSmall | POne | PBig | PInf.
(* NBig < -1, NOne = -1, -1 < NSmall < 0, 0 < PSmall < 1, POne = 1, PBig > 1 *)
Definition class_of (x : Z) : fclass :=
  if x <? -2 then NBig else if x =? -2 then NOne else if x <? 0 then NSmall
  else if x =? 0 then Zero else if x <? 2 then PSmall else if x =? 2 then POne else PBig.
Definition finite (c : fclass) : bool :=
  match c with Nan | NInf | PInf => false | _ => true end.
Definition fclass_eqb (a b : fclass) : bool :=
  match a, b with
  | Nan, Nan | NInf, NInf | NBig, NBig | NOne, NOne | NSmall, NSmall | Zero, Zero
  | PSmall, PSmall | POne, POne | PBig, PBig | PInf, PInf => true
  | _, _ => false
  end.
Definition neg_c (c : fclass) : fclass :=
  match c with
  | Nan => Nan | NInf => PInf | NBig => PBig | NOne => POne | NSmall => PSmall | Zero => Zero
  | PSmall => NSmall | POne => NOne | PBig => NBig | PInf => NInf
  end.
(* kernels on classes: the list of classes the IEEE result may fall in (overflow of
   finite operands to infinity is outside the algebra, see claims) *)
Definition k_sqrt (c : fclass) : list fclass :=
  match c with
  | Nan | NInf | NBig | NOne | NSmall => [Nan]
  | Zero => [Zero] | PSmall => [PSmall; POne] | POne => [POne] | PBig => [POne; PBig] | PInf => [PInf]
  end.                 (* rounding: sqrt(1 + 2^-52) = 1 *)
Definition k_log (c : fclass) : list fclass :=
  match c with
  | Nan | NInf | NBig | NOne | NSmall => [Nan]
  | Zero => [NInf]                                  (* the pole *)
  | PSmall => [NBig; NOne; NSmall] | POne => [Zero] | PBig => [PSmall; POne; PBig] | PInf => [PInf]
  end.
Definition k_arcsin (c : fclass) : list fclass :=
  match c with
  | Nan | NInf | NBig | PBig | PInf => [Nan]
  | NOne => [NBig] | NSmall => [NBig; NOne; NSmall] | Zero => [Zero]
  | PSmall => [PSmall; POne; PBig] | POne => [PBig]
  end.
Definition k_arccos (c : fclass) : list fclass :=
  match c with
  | Nan | NInf | NBig | PBig | PInf => [Nan]
  | POne => [Zero] | _ => [PSmall; POne; PBig]
  end.
Definition k_recip (c : fclass) : list fclass :=
  match c with
  | Nan => [Nan] | NInf | PInf => [Zero]
  | Zero => [PInf; NInf]                            (* the pole *)
  | NBig => [NSmall] | NOne => [NOne] | NSmall => [NBig]
  | PSmall => [PBig] | POne => [POne] | PBig => [PSmall]
  end.
Definition pos_fin := [PSmall; POne; PBig].
Definition neg_fin := [NBig; NOne; NSmall].
Definition sign_c (c : fclass) : comparison :=
  match c with
  | NInf | NBig | NOne | NSmall => Lt | Zero | Nan => Eq | _ => Gt
  end.
(* x / y, x // y, x % y on classes *)
Definition k_div (x y : fclass) : list fclass :=
  match x, y with
  | Nan, _ | _, Nan => [Nan]
  | (NInf | PInf), (NInf | PInf) => [Nan]
  | Zero, Zero => [Nan]
  | _, Zero => [PInf; NInf]                                          (* the pole *)
  | (NInf | PInf), _ => [PInf; NInf]
  | _, (NInf | PInf) => [Zero]
  | Zero, _ => [Zero]
  | _, _ => match sign_c x, sign_c y with
            | Lt, Lt | Gt, Gt => pos_fin
            | _, _ => neg_fin
            end
  end.
Definition k_floordiv (x y : fclass) : list fclass :=
  match x, y with
  | Nan, _ | _, Nan => [Nan]
  | _, Zero => [Nan; PInf; NInf]
  | (NInf | PInf), _ => [Nan]
  | _, (NInf | PInf) => [Zero; NOne]
  | _, _ => Zero :: pos_fin ++ neg_fin
  end.
Definition k_mod (x y : fclass) : list fclass :=
  match x, y with
  | Nan, _ | _, Nan => [Nan]
  | _, Zero => [Nan]
  | (NInf | PInf), _ => [Nan]
  | _, (NInf | PInf) => x :: [y]
  | _, _ => Zero :: pos_fin ++ neg_fin
  end.

Inductive kern := KSqrt | KLog | KArcsin | KArccos | KRecip | KDiv | KFloordiv | KMod.
Definition k_apply (k : kern) (x y : fclass) : list fclass :=
  match k with
  | KSqrt => k_sqrt x | KLog => k_log x | KArcsin => k_arcsin x | KArccos => k_arccos x
  | KRecip => k_recip x | KDiv => k_div x y | KFloordiv => k_floordiv x y | KMod => k_mod x y
  end.
(* the guarded computation: classes of the result the kernel can produce when fed the
   sanitised argument(s) *)
Definition guarded1 (o : op1) (x : Z) : list fclass :=
  let c := class_of (kernel_arg1 o x) in
  match o with
  | OSqrt => k_sqrt c | OLog => k_log c | ORecip => k_recip c
  | OArc => k_arcsin c ++ k_arccos c
  | _ => [class_of x]
  end.
Definition guarded_div (k : kern) (x y : Z) : list fclass :=
  k_apply k (class_of x) (class_of (kernel_divisor y)).

(* ---- observation and cases ---- *)
Inductive obs := OErr | OMask (s : shape) (l : list bool).
Definition obs_of (r : res) : obs :=
  match r with
  | RErr => OErr
  | ROk s m => OMask s (map (mget m) (all_mi s))
  end.
Fixpoint bools_eqb (a b : list bool) : bool :=
  match a, b with
  | [], [] => true
  | x :: a', y :: b' => Bool.eqb x y && bools_eqb a' b'
  | _, _ => false
  end.
Definition obs_eqb (x y : obs) : bool :=
  match x, y with
  | OErr, OErr => true
  | OMask s l, OMask s' l' => shape_eqb s s' && bools_eqb l l'
  | _, _ => false
  end.

Definition mkoL (s : shape) (v : list (list Z)) (m : mrepL) (num : bool) : opnd :=
  mko s (fun i => nth (ravel s i) v []) (mrep_of s m) num.

Inductive case01 :=
| C1 (o : op1) (a : opnd)
| C2 (o : op2) (inplace : bool) (a b : opnd)
| C3 (a b c : opnd)
| CK (k : kern) (x y : fclass) (seen : fclass).    (* a NumPy kernel result observed on representatives *)

Definition run01 (c : case01) : obs :=
  match c with
  | C1 o a => obs_of (ew1 o a)
  | C2 o ip a b => obs_of (ew2 o ip a b)
  | C3 a b c => obs_of (ew3 a b c)
  | CK k x y seen => OMask [] [existsb (fclass_eqb seen) (k_apply k x y)]
  end.

Fixpoint mism_from (k : nat) (l : list (case01 * obs)) : list nat :=
  match l with
  | [] => []
  | (c, o) :: t => if obs_eqb (run01 c) o then mism_from (S k) t else k :: mism_from (S k) t
  end.
Definition mismatches := mism_from 0.
