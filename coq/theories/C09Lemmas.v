(* C09 lemmas. U = unbounded; the multi-array agreement is B (bounded-exhaustive by
   vm_compute, the bound is the family defined in C09Model.v). *)
From Coq Require Import List Arith ZArith Bool Lia.
From PM Require Import Base Mask C09Model.
Import ListNotations.

Arguments slice_list : simpl never.
Arguments int_pos : simpl never.
Arguments ocons : simpl never.
Arguments oapp : simpl never.

(* ------------------------------------------------------------------------- *)
(* masks and "the same selection everywhere"                                  *)
(* ------------------------------------------------------------------------- *)
Section Select.
Context {V : Type}.

(* U: a result element is masked iff the index entry that selected it is masked / out of
   range, or its source element is masked *)
Lemma select_mask_iff (d : V) p osh src o :
  mget (pmask (select d p osh src)) o = true <->
  (src o = None \/ exists e, src o = Some e /\ mget (pmask p) e = true).
Proof.
  simpl. destruct (src o) as [e|] eqn:E; split; intro H; auto.
  - right. exists e. split; auto.
  - destruct H as [H|(e' & He & Hm)]; [discriminate|]. inversion He; subst. exact Hm.
Qed.

Lemma select_value (d : V) p osh src o e :
  src o = Some e -> pval (select d p osh src) o = pval p e.
Proof. intro H. simpl. rewrite H. reflexivity. Qed.

(* U: getitem applies ONE selection, computed from the leading shape and the index only, to
   values, mask and every derivative *)
Lemma getitem_same_selection (d : V) (q r : obj V) idx :
  getitem d q idx = Some r ->
  exists osh src,
    ref_getitem (psh (omain q)) idx = Some (osh, src) /\
    omain r = select d (omain q) osh src /\
    oders r = map (fun kp => (fst kp, select d (snd kp) osh src)) (oders q).
Proof.
  unfold getitem. destruct (ref_getitem _ _) as [[osh src]|]; intro H; inversion H; subst.
  exists osh, src. repeat split; reflexivity.
Qed.

Lemma getitem_mask_iff (d : V) (q r : obj V) idx osh src o :
  getitem d q idx = Some r -> ref_getitem (psh (omain q)) idx = Some (osh, src) ->
  (mget (pmask (omain r)) o = true <->
   (src o = None \/ exists e, src o = Some e /\ mget (pmask (omain q)) e = true)).
Proof.
  unfold getitem. intros H Hg. rewrite Hg in H. inversion H; subst. apply select_mask_iff.
Qed.

(* U: the selection commutes with any element-wise map (it never looks at the values) *)
Lemma select_natural {W} (f : V -> W) (d : V) p osh src o :
  pval (select (f d) (mkpl (psh p) (fun i => f (pval p i)) (pmask p)) osh src) o
  = f (pval (select d p osh src) o).
Proof. simpl. destruct (src o); reflexivity. Qed.

(* U: an invalid index is an IndexError (None) and nothing else: getitem has no other failure *)
Lemma getitem_error_iff (d : V) (q : obj V) idx :
  getitem d q idx = None <-> ref_getitem (psh (omain q)) idx = None.
Proof.
  unfold getitem. destruct (ref_getitem _ _) as [[osh src]|]; split; intro H; auto; discriminate.
Qed.
End Select.

(* ------------------------------------------------------------------------- *)
(* basic indexing = NumPy basic indexing (independent per-axis definition)     *)
(* ------------------------------------------------------------------------- *)
Lemma inb_cons n s o : inb (n :: s) o = true -> exists k o', o = k :: o' /\ k < n /\ inb s o' = true.
Proof.
  destruct o as [|k o']; simpl; intro H; [discriminate|].
  apply andb_true_iff in H. destruct H as [H1 H2]. apply Nat.ltb_lt in H1. eauto.
Qed.

Lemma omap_ocons {A} (a : arr A) k w :
  option_map (aget a) (ocons (Some k) w) = option_map (aget (sub a k)) w.
Proof. unfold ocons. destruct w; reflexivity. Qed.

(* pieces [ps] describe the array transformer [f] on arrays of shape [rest] *)
Definition agrees {A} (ps : list piece) (f : arr A -> arr A) (rest : shape) : Prop :=
  forall a : arr A, ashape a = rest ->
    (forall ash seen, oshape ps ash seen = ashape (f a)) /\
    (forall ash o ai, inb (ashape (f a)) o = true ->
       option_map (aget a) (walk ps ash o ai) = Some (aget (f a) o)).

Lemma agrees_ext {A} ps (f g : arr A -> arr A) rest :
  (forall a, ashape a = rest -> f a = g a) -> agrees ps f rest -> agrees ps g rest.
Proof. intros He H a Ha. rewrite <- (He a Ha). apply H; exact Ha. Qed.

Lemma agrees_nil {A} : agrees [] (fun a : arr A => a) [].
Proof.
  intros a Ha. split; intros; simpl; auto.
  rewrite Ha in H. destruct o; [reflexivity|discriminate].
Qed.

Lemma agrees_new {A} ps (f : arr A -> arr A) rest :
  agrees ps f rest -> agrees (PNew 1 :: ps) (fun a => stack 1 (fun _ => f a)) rest.
Proof.
  intros H a Ha. destruct (H a Ha) as [Hs Hw]. split.
  - intros ash seen. simpl. rewrite Hs. reflexivity.
  - intros ash o ai Ho. simpl in Ho. apply inb_cons in Ho. destruct Ho as (k & o' & -> & _ & Ho').
    simpl. apply Hw. exact Ho'.
Qed.

Lemma agrees_axis {A} ps (f : arr A -> arr A) pos n r :
  agrees ps f r ->
  agrees (PAxis pos :: ps) (fun a => stack (length pos) (fun j => f (sub a (nth j pos 0)))) (n :: r).
Proof.
  intros H a Ha.
  assert (Hsub : forall k, ashape (sub a k) = r) by (intro k; simpl; rewrite Ha; reflexivity).
  split.
  - intros ash seen. simpl. destruct (H _ (Hsub (nth 0 pos 0))) as [Hs _]. rewrite Hs. reflexivity.
  - intros ash o ai Ho. simpl in Ho. apply inb_cons in Ho. destruct Ho as (k & o' & -> & Hk & Ho').
    simpl. rewrite omap_ocons.
    destruct (H _ (Hsub (nth k pos 0))) as [Hs Hw]. apply Hw.
    destruct (H _ (Hsub (nth 0 pos 0))) as [Hs0 _].
    rewrite <- (Hs [] false). rewrite (Hs0 [] false). exact Ho'.
Qed.

Lemma agrees_full {A} ps (f : arr A -> arr A) n r :
  agrees ps f r ->
  agrees (PAxis (seq 0 n) :: ps) (fun a => stack n (fun j => f (sub a j))) (n :: r).
Proof.
  intros H a Ha.
  assert (Hsub : forall k, ashape (sub a k) = r) by (intro k; simpl; rewrite Ha; reflexivity).
  split.
  - intros ash seen. simpl. rewrite seq_length. destruct (H _ (Hsub 0)) as [Hs _]. rewrite Hs. reflexivity.
  - intros ash o ai Ho. simpl in Ho. apply inb_cons in Ho. destruct Ho as (k & o' & -> & Hk & Ho').
    simpl. rewrite omap_ocons. rewrite seq_nth by exact Hk. simpl.
    destruct (H _ (Hsub k)) as [Hs Hw]. apply Hw.
    destruct (H _ (Hsub 0)) as [Hs0 _].
    rewrite <- (Hs [] false). rewrite (Hs0 [] false). exact Ho'.
Qed.

Lemma agrees_empty {A} ps (f : arr A -> arr A) n r :
  agrees ps f r -> agrees (PAxis [] :: ps) (fun a => stack 0 (fun j => f (sub a j))) (n :: r).
Proof.
  intros H a Ha.
  assert (Hsub : forall k, ashape (sub a k) = r) by (intro k; simpl; rewrite Ha; reflexivity).
  split.
  - intros ash seen. simpl. destruct (H _ (Hsub 0)) as [Hs _]. rewrite Hs. reflexivity.
  - intros ash o ai Ho. simpl in Ho. destruct o; discriminate.
Qed.

Lemma agrees_fixed {A} ps (f : arr A -> arr A) k n r :
  agrees ps f r -> agrees (PFixed (Some k) :: ps) (fun a => f (sub a k)) (n :: r).
Proof.
  intros H a Ha.
  assert (Hsub : ashape (sub a k) = r) by (simpl; rewrite Ha; reflexivity).
  destruct (H _ Hsub) as [Hs Hw]. split.
  - intros ash seen. simpl. apply Hs.
  - intros ash o ai Ho. simpl. rewrite omap_ocons. apply Hw. exact Ho.
Qed.

Lemma agrees_under {A} ps (f : arr A -> arr A) k : forall rest,
  agrees ps f (skipn k rest) ->
  agrees (map (fun n => PAxis (seq 0 n)) (firstn k rest) ++ ps) (under k f) rest.
Proof.
  induction k as [|k IH]; intros rest H.
  - simpl in *. exact H.
  - destruct rest as [|n r].
    + simpl in *. intros a Ha. simpl. rewrite Ha. apply H. exact Ha.
    + simpl firstn. simpl map. simpl app. simpl skipn in H.
      apply agrees_ext with (f := fun a => stack n (fun j => under k f (sub a j))).
      * intros a Ha. simpl. rewrite Ha. reflexivity.
      * apply agrees_full. apply IH. exact H.
Qed.

Lemma int_pos_valid n v :
  (- Z.of_nat n <=? v)%Z = true -> (v <? Z.of_nat n)%Z = true ->
  int_pos n v false = Some (wrap_neg n v).
Proof.
  intros H1 H2. apply Z.leb_le in H1. apply Z.ltb_lt in H2.
  unfold int_pos, wrap_neg. simpl.
  destruct (Z.leb_spec (Z.of_nat n) v) as [Hc|Hc]; [lia|].
  destruct (Z.ltb_spec v (- Z.of_nat n)) as [Hd|Hd]; [lia|]. simpl.
  f_equal. f_equal.
  destruct (Z.ltb_spec v 0) as [Hn|Hn].
  - symmetry. apply (Z.mod_unique_pos v (Z.of_nat n) (-1) (v + Z.of_nat n)); lia.
  - apply Z.mod_small. lia.
Qed.

Lemma arr_shape_full l ps : arr_shape (map (fun n => PAxis (seq 0 n)) l ++ ps) = arr_shape ps.
Proof. induction l as [|n l IH]; simpl; auto. Qed.

(* U: on valid basic entries the pieces of the specification describe NumPy basic indexing *)
Lemma build_basic {A} fill : forall ents rest,
  valid_basic fill rest ents = true ->
  exists ps, build fill rest ents = Some ps /\ arr_shape ps = Some [] /\
             agrees ps (@npb A fill ents) rest.
Proof.
  induction ents as [|e t IH]; intros rest Hv.
  - simpl in Hv. destruct rest; [|discriminate].
    exists []. split; [reflexivity|]. split; [reflexivity|]. apply agrees_nil.
  - destruct e as [v m|x y z| | |v m|s v m|s v m|n s v m|]; simpl in Hv; try discriminate.
    + (* EInt *)
      destruct rest as [|n r]; [discriminate|].
      apply andb_true_iff in Hv. destruct Hv as [Hv Ht].
      apply andb_true_iff in Hv. destruct Hv as [Hv H2].
      apply andb_true_iff in Hv. destruct Hv as [Hm H1].
      destruct m; [discriminate|].
      destruct (IH _ Ht) as (ps & Hb & Ha & Hag).
      exists (PFixed (Some (wrap_neg n v)) :: ps). simpl. rewrite Hb. simpl.
      rewrite (int_pos_valid _ _ H1 H2). split; [reflexivity|]. split; [exact Ha|].
      apply agrees_ext with (f := fun a => npb fill t (sub a (wrap_neg n v))).
      * intros a Hs. simpl. rewrite Hs. reflexivity.
      * apply agrees_fixed. exact Hag.
    + (* ESlice *)
      destruct rest as [|n r]; [discriminate|].
      destruct (IH _ Hv) as (ps & Hb & Ha & Hag).
      exists (PAxis (slice_list n x y z) :: ps). simpl. rewrite Hb. simpl. split; [reflexivity|]. split; [exact Ha|].
      apply agrees_ext with (f := fun a => stack (length (slice_list n x y z))
                                             (fun j => npb fill t (sub a (nth j (slice_list n x y z) 0)))).
      * intros a Hs. simpl. rewrite Hs. reflexivity.
      * apply agrees_axis. exact Hag.
    + (* ENone *)
      destruct (IH _ Hv) as (ps & Hb & Ha & Hag).
      exists (PNew 1 :: ps). simpl. rewrite Hb. simpl. split; [reflexivity|]. split; [exact Ha|].
      apply agrees_new. exact Hag.
    + (* EEll *)
      destruct (IH _ Hv) as (ps & Hb & Ha & Hag).
      exists (map (fun n => PAxis (seq 0 n)) (firstn fill rest) ++ ps). simpl. rewrite Hb. simpl.
      split; [reflexivity|]. split.
      * rewrite arr_shape_full. exact Ha.
      * apply agrees_under. exact Hag.
    + (* EBool *)
      destruct rest as [|n r]; [discriminate|].
      apply andb_true_iff in Hv. destruct Hv as [Hm Ht]. destruct m; [discriminate|].
      destruct (IH _ Ht) as (ps & Hb & Ha & Hag).
      destruct v.
      * exists (PAxis (seq 0 n) :: ps). simpl. rewrite Hb. simpl. split; [reflexivity|]. split; [exact Ha|].
        apply agrees_ext with (f := fun a => stack n (fun j => npb fill t (sub a j))).
        -- intros a Hs. simpl. rewrite Hs. reflexivity.
        -- apply agrees_full. exact Hag.
      * exists (PAxis [] :: ps). simpl. rewrite Hb. simpl. split; [reflexivity|]. split; [exact Ha|].
        apply agrees_empty. exact Hag.
Qed.

Lemma expand_basic ents : forallb basic_ok ents = true -> expand ents = ents.
Proof.
  induction ents as [|e t IH]; simpl; intro H; auto.
  apply andb_true_iff in H. destruct H as [He Ht]. unfold expand in *. simpl.
  rewrite (IH Ht). destruct e; simpl in He; try discriminate; reflexivity.
Qed.

Theorem basic_is_numpy {A} (a : arr A) ents :
  ashape a <> [] -> basic_valid (ashape a) ents = true ->
  exists osh src,
    ref_getitem (ashape a) ents = Some (osh, src) /\
    osh = ashape (np_basic ents a) /\
    forall o, inb osh o = true -> option_map (aget a) (src o) = Some (aget (np_basic ents a) o).
Proof.
  intros Hne Hv. unfold basic_valid in Hv.
  apply andb_true_iff in Hv. destruct Hv as [Hv H5].
  apply andb_true_iff in Hv. destruct Hv as [Hv H4].
  apply andb_true_iff in Hv. destruct Hv as [Hv H3].
  apply andb_true_iff in Hv. destruct Hv as [H1 H2].
  apply negb_true_iff in H2, H3, H4.
  destruct (build_basic (A := A) _ _ _ H5) as (ps & Hb & Ha & Hag).
  unfold ref_getitem, ref_pieces.
  destruct (ashape a) as [|n s] eqn:Es; [contradiction|].
  rewrite (expand_basic _ H1). rewrite H2, H3, H4. simpl orb. cbv iota.
  unfold with_ell in Hb. rewrite Hb. rewrite Ha.
  destruct (Hag a Es) as [Hs Hw].
  eexists. eexists. split; [reflexivity|]. unfold np_basic. rewrite Es. split.
  - apply Hs.
  - intros o Ho. apply Hw. rewrite <- (Hs [] false). exact Ho.
Qed.

(* U: a masked or out-of-range integer, or a masked single boolean, masks every element *)
Lemma walk_masked_fixed ps1 ps2 ash : forall o ai, walk (ps1 ++ PFixed None :: ps2) ash o ai = None.
Proof.
  induction ps1 as [|p ps1 IH]; intros o ai; simpl.
  - reflexivity.
  - destruct p as [pos|n| |q|s items]; simpl; rewrite ?IH; unfold ocons, oapp; auto.
    + destruct q; reflexivity.
    + destruct (nth _ items None); reflexivity.
Qed.
Lemma walk_masked_bool ps1 ps2 ash : forall o ai, walk (ps1 ++ PMasked :: ps2) ash o ai = None.
Proof.
  induction ps1 as [|p ps1 IH]; intros o ai; simpl.
  - reflexivity.
  - destruct p as [pos|n| |q|s items]; simpl; rewrite ?IH; unfold ocons, oapp; auto.
    + destruct q; reflexivity.
    + destruct (nth _ items None); reflexivity.
Qed.

(* ------------------------------------------------------------------------- *)
(* iteration                                                                  *)
(* ------------------------------------------------------------------------- *)
Lemma under_id {A} k : forall (a : arr A),
  ashape (under k (fun x => x) a) = ashape a /\
  forall o, inb (ashape a) o = true -> aget (under k (fun x => x) a) o = aget a o.
Proof.
  induction k as [|k IH]; intro a; simpl.
  - split; auto.
  - destruct (ashape a) as [|n r] eqn:Es.
    + split; auto.
    + split.
      * simpl. destruct (IH (sub a 0)) as [Hs _]. rewrite Hs. simpl. rewrite Es. reflexivity.
      * intros o Ho. apply inb_cons in Ho. destruct Ho as (j & o' & -> & Hj & Ho').
        simpl. destruct (IH (sub a j)) as [_ Hg]. rewrite Hg; [reflexivity|].
        simpl. rewrite Es. exact Ho'.
Qed.

(* the selection of q[k] on a shape n :: s, k < n: result shape s, element o reads k :: o *)
Lemma int_selection n s k :
  k < n ->
  exists src, ref_getitem (n :: s) [EInt (Z.of_nat k) false] = Some (s, src) /\
              forall o, inb s o = true -> src o = Some (k :: o).
Proof.
  intro Hk.
  set (a := mkarr (n :: s) (fun i : mi => i)).
  assert (Hv : basic_valid (ashape a) [EInt (Z.of_nat k) false] = true).
  { unfold basic_valid. simpl. replace (length s - 0) with (length s) by lia.
    rewrite skipn_all. simpl.
    destruct (Z.leb_spec (- Z.of_nat n) (Z.of_nat k)); [|lia].
    destruct (Z.ltb_spec (Z.of_nat k) (Z.of_nat n)); [|lia].
    destruct (length s); reflexivity. }
  destruct (basic_is_numpy a _ (ltac:(discriminate) : ashape a <> []) Hv) as (osh & src & Hg & Hs & Hw).
  assert (Hnp : forall o, inb s o = true ->
                          ashape (np_basic [EInt (Z.of_nat k) false] a) = s /\
                          aget (np_basic [EInt (Z.of_nat k) false] a) o = k :: o).
  { intros o Ho. unfold np_basic, with_ell. simpl. replace (length s - 0) with (length s) by lia.
    assert (Hwk : wrap_neg n (Z.of_nat k) = k).
    { unfold wrap_neg. destruct (Z.ltb_spec (Z.of_nat k) 0); [lia|]. apply Nat2Z.id. }
    rewrite Hwk.
    destruct (under_id (length s) (sub a k)) as [Hsh Hg']. split.
    - rewrite Hsh. reflexivity.
    - rewrite Hg'; [reflexivity|]. exact Ho. }
  assert (Hosh : osh = s).
  { rewrite Hs. unfold np_basic, with_ell. simpl. replace (length s - 0) with (length s) by lia.
    destruct (under_id (length s) (sub a (wrap_neg n (Z.of_nat k)))) as [Hsh _]. rewrite Hsh. reflexivity. }
  rewrite Hosh in Hg, Hw. exists src. split; [exact Hg|].
  intros o Ho. specialize (Hw o Ho). destruct (Hnp o Ho) as [_ Hval]. rewrite Hval in Hw.
  destruct (src o) as [e|]; simpl in Hw; [|discriminate].
  unfold a in Hw. simpl in Hw. injection Hw as He. rewrite He. reflexivity.
Qed.

Section Iter.
Context {V : Type}.
Variable d : V.

(* U: len, and iteration visits q[0], q[1], ... in order *)
Lemma iter_length (q : obj V) n s :
  psh (omain q) = n :: s -> length (iter_items d q) = n /\ qlen q = Some n.
Proof. intro H. unfold iter_items, qlen. rewrite H. rewrite map_length, seq_length. auto. Qed.

Lemma iter_nth (q : obj V) n s k :
  psh (omain q) = n :: s -> k < n ->
  nth k (iter_items d q) None = getitem d q [EInt (Z.of_nat k) false].
Proof.
  intros H Hk. unfold iter_items. rewrite H.
  rewrite nth_indep with (d' := getitem d q [EInt (Z.of_nat 0) false]) by (rewrite map_length, seq_length; exact Hk).
  rewrite (map_nth (fun k => getitem d q [EInt (Z.of_nat k) false]) (seq 0 n) 0 k).
  rewrite seq_nth by exact Hk. reflexivity.
Qed.

(* U: q[k] is the k-th slice along the first axis: shape, values, mask, derivatives *)
Lemma getitem_int (q : obj V) n s k :
  psh (omain q) = n :: s -> k < n ->
  exists r, getitem d q [EInt (Z.of_nat k) false] = Some r /\
    psh (omain r) = s /\
    (forall o, inb s o = true ->
       pval (omain r) o = pval (omain q) (k :: o) /\
       mget (pmask (omain r)) o = mget (pmask (omain q)) (k :: o)) /\
    map fst (oders r) = map fst (oders q) /\
    (forall j key p, nth_error (oders q) j = Some (key, p) ->
       exists p', nth_error (oders r) j = Some (key, p') /\
                  forall o, inb s o = true ->
                    pval p' o = pval p (k :: o) /\ mget (pmask p') o = mget (pmask p) (k :: o)).
Proof.
  intros H Hk. destruct (int_selection n s k Hk) as (src & Hg & Hsrc).
  unfold getitem. rewrite H, Hg. eexists. split; [reflexivity|]. simpl. repeat split.
  - rewrite (Hsrc o H0). reflexivity.
  - rewrite (Hsrc o H0). reflexivity.
  - rewrite map_map. simpl. reflexivity.
  - intros j key p Hj. exists (select d p s src). split.
    + rewrite nth_error_map. rewrite Hj. reflexivity.
    + intros o Ho. simpl. rewrite (Hsrc o Ho). split; reflexivity.
Qed.

(* U: ndenumerate visits the multi-indices in row-major order, each with q[i] *)
Lemma enum_spec (q : obj V) n s :
  psh (omain q) = n :: s ->
  map fst (enum_items d q) = all_mi (n :: s) /\
  forall j i, nth_error (all_mi (n :: s)) j = Some i ->
              nth_error (enum_items d q) j = Some (i, getitem d q (int_idx i)).
Proof.
  intro H. unfold enum_items. rewrite H. split.
  - rewrite map_map. simpl. apply map_id.
  - intros j i Hj. rewrite nth_error_map. rewrite Hj. reflexivity.
Qed.
End Iter.

(* ------------------------------------------------------------------------- *)
(* B: several array entries: the specification agrees with NumPy advanced      *)
(* indexing followed by relocation to where the first array entry stood        *)
(* ------------------------------------------------------------------------- *)
Lemma omi_eqb_eq a b : omi_eqb a b = true <-> a = b.
Proof.
  destruct a as [x|], b as [y|]; simpl; split; intro H; try discriminate; auto.
  - apply shape_eqb_eq in H. subst; reflexivity.
  - inversion H; subst. apply shape_eqb_eq. reflexivity.
Qed.

Lemma sel_agree_spec x y :
  sel_agree x y = true ->
  match x, y with
  | None, None => True
  | Some (s1, f1), Some (s2, f2) => s1 = s2 /\ forall o, inb s1 o = true -> f1 o = f2 o
  | _, _ => False
  end.
Proof.
  destruct x as [[s1 f1]|], y as [[s2 f2]|]; simpl; intro H; try discriminate; auto.
  apply andb_true_iff in H. destruct H as [H1 H2]. apply shape_eqb_eq in H1. split; auto.
  intros o Ho. rewrite forallb_forall in H2. apply omi_eqb_eq. apply H2. apply in_all_mi. exact Ho.
Qed.

Lemma family_ok_on_spec shapes depth :
  family_ok_on shapes depth = true ->
  forall sh ents, In sh shapes -> In ents (tuples depth sh) ->
  sel_agree (ref_getitem sh ents) (np_getitem sh ents) = true.
Proof.
  unfold family_ok_on. intros H sh ents Hs He.
  rewrite forallb_forall in H. specialize (H sh Hs).
  rewrite forallb_forall in H. exact (H ents He).
Qed.

Lemma family_3_ok : family_ok_on family_shapes 3 = true.
Proof. vm_compute. reflexivity. Qed.
Lemma family_4_ok : family_ok_on family_shapes12 4 = true.
Proof. vm_compute. reflexivity. Qed.

Theorem multi_array_bounded sh ents :
  In sh family_shapes -> In ents (tuples 3 sh) ->
  match ref_getitem sh ents, np_getitem sh ents with
  | None, None => True
  | Some (s1, f1), Some (s2, f2) => s1 = s2 /\ forall o, inb s1 o = true -> f1 o = f2 o
  | _, _ => False
  end.
Proof.
  intros Hs He.
  exact (sel_agree_spec _ _ (family_ok_on_spec family_shapes 3 family_3_ok sh ents Hs He)).
Qed.

Theorem multi_array_bounded4 sh ents :
  In sh family_shapes12 -> In ents (tuples 4 sh) ->
  match ref_getitem sh ents, np_getitem sh ents with
  | None, None => True
  | Some (s1, f1), Some (s2, f2) => s1 = s2 /\ forall o, inb s1 o = true -> f1 o = f2 o
  | _, _ => False
  end.
Proof.
  intros Hs He.
  exact (sel_agree_spec _ _ (family_ok_on_spec family_shapes12 4 family_4_ok sh ents Hs He)).
Qed.
