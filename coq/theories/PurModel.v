(* C07, regenerated part: the array stores of the package (tools/regen/purity_ast.py -> Gen_purity.v), each with the
   storage roots its target may alias, and the heap model in which "no store into storage that existed before the
   call" gives "every operand is bit-for-bit what it was".  Proof-free; the frame theorem is in PurLemmas.v. *)
From Coq Require Import List String Bool Arith ZArith.
Import ListNotations.

Record store_site := mksite {
  s_file : string;          (* source file *)
  s_fn : string;            (* Class.function *)
  s_target : string;        (* the store target as written *)
  s_roots : string;         (* operand storage it may alias (P:param, A:expr) *)
  s_allowed : bool }.       (* listed, with its reason, in purity_ast.ALLOWED *)

(* the obligation on the regenerated table: every store whose target may alias operand storage is a listed one *)
Definition stores_ok (l : list store_site) : bool := forallb s_allowed l.
Definition enough_functions (n : nat) : bool := Nat.leb 300 n.

(* ---- heap model of one call ---- *)
Definition loc := nat.
Definition heap := loc -> option (list Z).       (* None: not allocated *)
Inductive action :=
| Alloc (l : loc) (v : list Z)                   (* a fresh buffer (np.empty, .copy(), arithmetic result ...) *)
| Store (l : loc) (k : nat) (x : Z)              (* buf[l][k] = x *)
| Read (l : loc).

Fixpoint set_nth (v : list Z) (k : nat) (x : Z) : list Z :=
  match v, k with
  | [], _ => []
  | _ :: t, 0 => x :: t
  | h :: t, S k' => h :: set_nth t k' x
  end.
Definition upd (h : heap) (l : loc) (v : option (list Z)) : heap := fun m => if Nat.eqb m l then v else h m.

(* running a call: `fresh` collects the buffers allocated by this call *)
Fixpoint run (acts : list action) (h : heap) (fresh : list loc) : heap * list loc :=
  match acts with
  | [] => (h, fresh)
  | Alloc l v :: t => match h l with
                      | None => run t (upd h l (Some v)) (l :: fresh)
                      | Some _ => run t h fresh            (* an allocator never returns live storage *)
                      end
  | Store l k x :: t => match h l with
                        | Some v => run t (upd h l (Some (set_nth v k x))) fresh
                        | None => run t h fresh
                        end
  | Read _ :: t => run t h fresh
  end.

(* the discipline the analysis establishes: every store goes to a buffer this call allocated *)
Fixpoint stores_fresh (acts : list action) (fresh : list loc) (h : heap) : bool :=
  match acts with
  | [] => true
  | Alloc l v :: t => match h l with
                      | None => stores_fresh t (l :: fresh) (upd h l (Some v))
                      | Some _ => stores_fresh t fresh h
                      end
  | Store l k x :: t => existsb (Nat.eqb l) fresh &&
                        match h l with
                        | Some v => stores_fresh t fresh (upd h l (Some (set_nth v k x)))
                        | None => stores_fresh t fresh h
                        end
  | Read _ :: t => stores_fresh t fresh h
  end.
