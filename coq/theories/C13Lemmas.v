(* C13 proofs about the model in C13Model.v. *)
From Coq Require Import List Arith ZArith Bool Lia Sorted Permutation.
From PM Require Import Base Mask C13Model.
Import ListNotations.

(* ------------------------------------------------------------------------ *)
(* structure of axis reductions (shapes, index merging)                       *)
(* ------------------------------------------------------------------------ *)
Lemma merge_inb : forall s keep o r, length keep = length s ->
  inb (out_shape s keep) o = true -> inb (red_shape s keep) r = true ->
  inb s (merge_idx keep o r) = true.
Proof.
  induction s as [|n s IH]; intros keep o r Hl Ho Hr.
  - destruct keep; simpl in *; [reflexivity|discriminate].
  - destruct keep as [|k keep]; simpl in Hl; [discriminate|]. injection Hl as Hl.
    destruct k; simpl in *.
    + destruct o as [|x o]; [discriminate|].
      apply andb_true_iff in Ho. destruct Ho as [H1 H2]. rewrite H1. simpl. apply IH; auto.
    + destruct r as [|x r]; [discriminate|].
      apply andb_true_iff in Hr. destruct Hr as [H1 H2]. rewrite H1. simpl. apply IH; auto.
Qed.

Lemma red_size_nonzero : forall s keep, size s <> 0 -> size (red_shape s keep) <> 0.
Proof.
  induction s as [|n s IH]; intros keep H; destruct keep as [|k keep]; simpl in *; try lia.
  destruct k; simpl.
  - apply IH. nia.
  - assert (n <> 0) by nia. assert (size s <> 0) by nia. specialize (IH keep H1). nia.
Qed.

Lemma red_nonempty s keep : size s <> 0 -> all_mi (red_shape s keep) <> [].
Proof.
  intros H E. apply (red_size_nonzero s keep) in H.
  rewrite <- all_mi_length, E in H. simpl in H. lia.
Qed.

Lemma out_shape_spec : forall s keep,
  out_shape s keep = map fst (filter snd (combine s keep)).
Proof.
  induction s as [|n s IH]; intros [|k keep]; simpl; auto.
  destruct k; simpl; rewrite IH; reflexivity.
Qed.

Lemma map_negb_repeat_true n : map negb (repeat true n) = repeat false n.
Proof. induction n; simpl; congruence. Qed.
Lemma out_shape_allfalse s : out_shape s (repeat false (length s)) = [].
Proof. induction s; simpl; auto. Qed.
Lemma red_shape_allfalse s : red_shape s (repeat false (length s)) = s.
Proof. induction s; simpl; congruence. Qed.
Lemma merge_allfalse : forall s r, inb s r = true ->
  merge_idx (repeat false (length s)) [] r = r.
Proof.
  induction s as [|n s IH]; intros [|x r] H; simpl in *; try discriminate; auto.
  apply andb_true_iff in H. destruct H as [_ H]. rewrite IH; auto.
Qed.

Lemma pick_inb : forall s keep i, length keep = length s -> inb s i = true ->
  inb (out_shape s keep) (pick keep true i) = true.
Proof.
  induction s as [|n s IH]; intros keep i Hl Hi.
  - destruct keep; simpl in *; [reflexivity|discriminate].
  - destruct keep as [|k keep]; simpl in Hl; [discriminate|]. injection Hl as Hl.
    destruct i as [|x i]; simpl in Hi; [discriminate|].
    apply andb_true_iff in Hi. destruct Hi as [H1 H2].
    destruct k; simpl.
    + rewrite H1. simpl. apply IH; auto.
    + apply IH; auto.
Qed.

(* ------------------------------------------------------------------------ *)
(* the axis argument                                                          *)
(* ------------------------------------------------------------------------ *)
Lemma norm_ax_lt rank a k : norm_ax rank a = Some k -> k < rank.
Proof.
  unfold norm_ax.
  destruct (Z.leb_spec (- Z.of_nat rank) a); destruct (Z.ltb_spec a (Z.of_nat rank)); simpl;
    try discriminate.
  intro E. injection E as <-. destruct (Z.ltb_spec a 0); lia.
Qed.
(* the normalised axis is a mod rank, for a in [-rank, rank) *)
Lemma norm_ax_mod rank a k : norm_ax rank a = Some k ->
  (- Z.of_nat rank <= a < Z.of_nat rank)%Z /\ Z.of_nat k = (a mod Z.of_nat rank)%Z.
Proof.
  unfold norm_ax.
  destruct (Z.leb_spec (- Z.of_nat rank) a); destruct (Z.ltb_spec a (Z.of_nat rank)); simpl;
    try discriminate.
  intro E. injection E as <-. split; [lia|].
  destruct (Z.ltb_spec a 0).
  - rewrite Z2Nat.id by lia. apply Z.mod_unique with (q := (-1)%Z); lia.
  - rewrite Z2Nat.id by lia. symmetry. apply Z.mod_small; lia.
Qed.
Lemma norm_ax_none rank a : norm_ax rank a = None <->
  ~ (- Z.of_nat rank <= a < Z.of_nat rank)%Z.
Proof.
  unfold norm_ax.
  destruct (Z.leb_spec (- Z.of_nat rank) a); destruct (Z.ltb_spec a (Z.of_nat rank)); simpl;
    split; intro; try discriminate; try lia; auto.
Qed.

Lemma set_true_length : forall k l, length (set_true k l) = length l.
Proof. induction k; intros [|x l]; simpl; auto. Qed.
Lemma set_true_nth : forall k l j, k < length l ->
  nth j (set_true k l) false = (j =? k) || nth j l false.
Proof.
  induction k; intros [|x l] j H; simpl in *; try lia.
  - destruct j; simpl; auto.
  - destruct j; simpl; auto. apply IHk. lia.
Qed.
Lemma nth_repeat_false n j : nth j (repeat false n) false = false.
Proof. revert j; induction n; intros [|j]; simpl; auto. Qed.
Lemma nth_repeat_true n j : nth j (repeat true n) false = (j <? n).
Proof. revert j; induction n; intros [|j]; simpl; auto. apply IHn. Qed.

Lemma check_list_some : forall rank l sel sel', length sel = rank ->
  check_list rank l sel = Some sel' ->
  length sel' = rank /\
  forall j, nth j sel' false = true <->
            (nth j sel false = true \/ exists a, In a l /\ norm_ax rank a = Some j).
Proof.
  induction l as [|a l IH]; intros sel sel' Hl H; simpl in H.
  - injection H as <-. split; auto. intro j. split; auto. intros [H|(a & [] & _)]; auto.
  - destruct (norm_ax rank a) as [k|] eqn:E; [|discriminate].
    destruct (nth k sel false) eqn:Ek; [discriminate|].
    pose proof (norm_ax_lt _ _ _ E) as Hk.
    apply IH in H; [|rewrite set_true_length; auto]. destruct H as [H1 H2]. split; auto.
    intro j. rewrite H2. rewrite set_true_nth by lia. split.
    + intros [H|(b & Hb & Eb)].
      * apply orb_true_iff in H. destruct H as [H|H]; auto.
        apply Nat.eqb_eq in H. subst j. right. exists a. simpl; auto.
      * right. exists b. simpl; auto.
    + intros [H|(b & [Hb|Hb] & Eb)].
      * left. rewrite H. apply orb_true_r.
      * subst b. left. rewrite E in Eb. injection Eb as ->. rewrite Nat.eqb_refl. reflexivity.
      * right. exists b. auto.
Qed.

(* exactly the illegal arguments are rejected: an entry out of range, or two entries
   that name the same axis *)
Lemma check_list_ok : forall rank l sel, length sel = rank ->
  (check_list rank l sel <> None <->
   (forall a, In a l -> exists k, norm_ax rank a = Some k /\ nth k sel false = false)
   /\ NoDup (map (norm_ax rank) l)).
Proof.
  induction l as [|a l IH]; intros sel Hl; simpl.
  - split; [intros _; split; [intros a []|constructor]|intros _; discriminate].
  - destruct (norm_ax rank a) as [k|] eqn:E.
    + destruct (nth k sel false) eqn:Ek.
      * split; [intro H; congruence|].
        intros [H _]. destruct (H a (or_introl eq_refl)) as (k' & E' & F).
        rewrite E in E'. injection E' as <-. congruence.
      * pose proof (norm_ax_lt _ _ _ E) as Hk.
        rewrite IH by (rewrite set_true_length; auto). split.
        -- intros [H1 H2]. split.
           ++ intros b [<-|Hb]; [exists k; auto|].
              destruct (H1 b Hb) as (k' & E' & F). exists k'. split; auto.
              rewrite set_true_nth in F by lia. apply orb_false_iff in F. tauto.
           ++ constructor; auto. intro Hin. apply in_map_iff in Hin.
              destruct Hin as (b & Eb & Hb). destruct (H1 b Hb) as (k' & E' & F).
              rewrite E' in Eb. injection Eb as ->.
              rewrite set_true_nth, Nat.eqb_refl in F by lia. discriminate.
        -- intros [H1 H2]. inversion H2 as [|x xs Hnin Hnd]; subst. split; auto.
           intros b Hb. destruct (H1 b (or_intror Hb)) as (k' & E' & F). exists k'. split; auto.
           rewrite set_true_nth by lia. rewrite F, orb_false_r. apply Nat.eqb_neq.
           intro; subst k'. apply Hnin. apply in_map_iff. exists b. split; auto.
    + split; [intro H; congruence|].
      intros [H _]. destruct (H a (or_introl eq_refl)) as (k' & E' & _). congruence.
Qed.

Definition ax_list (ax : axarg) : list Z :=
  match ax with AxNone => [] | AxInt a => [a] | AxTup l => l end.

(* which axes a legal argument reduces *)
Lemma axes_sel_some rank ax sel : axes_sel rank ax = Some sel ->
  length sel = rank /\
  forall j, nth j sel false = true <->
    match ax with
    | AxNone => j < rank
    | _ => exists a, In a (ax_list ax) /\ norm_ax rank a = Some j
    end.
Proof.
  destruct ax as [|a|l]; unfold axes_sel.
  - intro H. injection H as <-. split; [apply repeat_length|].
    intro j. rewrite nth_repeat_true. apply Nat.ltb_lt.
  - intro H. apply check_list_some in H; [|apply repeat_length]. destruct H as [H1 H2].
    split; auto. intro j. rewrite H2, nth_repeat_false. simpl. split.
    + intros [H|H]; [discriminate|exact H].
    + intro H; right; exact H.
  - intro H. apply check_list_some in H; [|apply repeat_length]. destruct H as [H1 H2].
    split; auto. intro j. rewrite H2, nth_repeat_false. simpl. split.
    + intros [H|H]; [discriminate|exact H].
    + intro H; right; exact H.
Qed.

Lemma axes_sel_legal rank ax :
  axes_sel rank ax <> None <->
  (forall a, In a (ax_list ax) -> (- Z.of_nat rank <= a < Z.of_nat rank)%Z)
  /\ NoDup (map (norm_ax rank) (ax_list ax)).
Proof.
  assert (G : forall l, check_list rank l (repeat false rank) <> None <->
            (forall a, In a l -> (- Z.of_nat rank <= a < Z.of_nat rank)%Z)
            /\ NoDup (map (norm_ax rank) l)).
  { intro l. rewrite check_list_ok by apply repeat_length. split; intros [H1 H2]; split; auto.
    - intros a Ha. destruct (H1 a Ha) as (k & E & _). apply norm_ax_mod in E. tauto.
    - intros a Ha. specialize (H1 a Ha). destruct (norm_ax rank a) as [k|] eqn:E.
      + exists k. split; auto. apply nth_repeat_false.
      + apply norm_ax_none in E. contradiction. }
  destruct ax as [|a|l]; unfold axes_sel; simpl ax_list.
  - split; [intros _; split; [intros a []|constructor]|discriminate].
  - apply G.
  - apply G.
Qed.

Lemma keep_length rank ax sel : axes_sel rank ax = Some sel -> length (keep_of sel) = rank.
Proof. intro H. apply axes_sel_some in H. unfold keep_of. rewrite map_length. tauto. Qed.

(* ------------------------------------------------------------------------ *)
(* list-level kernels against the reference "reduce the unmasked contributors" *)
(* ------------------------------------------------------------------------ *)
Definition unmasked_all (l : list (Z * bool)) : Prop := forall p, In p l -> snd p = false.

Lemma um_plain l : unmasked_all l -> um l = vals l.
Proof.
  unfold um, vals, unmasked_all. induction l as [|p l IH]; intro H; simpl; auto.
  rewrite (H p (or_introl eq_refl)). simpl. f_equal. apply IH. intros q Hq. apply H. right; auto.
Qed.
Lemma count_um_length l : count_um l = length (um l).
Proof. unfold count_um, um. rewrite map_length. reflexivity. Qed.
Lemma count_um_zero l : (count_um l =? 0) = forallb snd l.
Proof.
  unfold count_um. induction l as [|[v m] l IH]; simpl; auto. destruct m; simpl; auto.
Qed.
Lemma forallb_snd_false_um l : forallb snd l = false -> um l <> [].
Proof.
  rewrite <- count_um_zero, count_um_length. intros H E. rewrite E in H. discriminate.
Qed.
Lemma unmasked_all_forallb l : unmasked_all l -> l <> [] -> forallb snd l = false.
Proof.
  intros H Hne. destruct l as [|p l]; [congruence|]. simpl.
  rewrite (H p (or_introl eq_refl)). reflexivity.
Qed.
Lemma in_um l x : In x (um l) <-> exists p, In p l /\ snd p = false /\ fst p = x.
Proof.
  unfold um. rewrite in_map_iff. split.
  - intros (p & E & Hp). apply filter_In in Hp. destruct Hp as [Hp Hm]. exists p.
    destruct (snd p); simpl in Hm; try discriminate. auto.
  - intros (p & Hp & Hm & E). exists p. split; auto. apply filter_In. rewrite Hm. auto.
Qed.

(* sum: zero-filling the masked slots *)
Lemma zsum_filled l : zsum (filled 0%Z l) = zsum (um l).
Proof.
  unfold filled, um, fill. induction l as [|[v m] l IH]; simpl; auto.
  destruct m; simpl; rewrite IH; lia.
Qed.

(* max / min of a non-empty list *)
Lemma fold_max_spec : forall t x,
  (x <= fold_left Z.max t x)%Z /\ (forall y, In y t -> (y <= fold_left Z.max t x)%Z) /\
  (fold_left Z.max t x = x \/ In (fold_left Z.max t x) t).
Proof.
  induction t as [|y t IH]; intro x; simpl.
  - split; [lia|]. split; [intros y []|auto].
  - destruct (IH (Z.max x y)) as (H1 & H2 & H3). split; [lia|]. split.
    + intros z [<-|Hz]; [lia|auto].
    + destruct H3 as [H3|H3]; auto. rewrite H3. destruct (Z.max_spec x y) as [[_ E]|[_ E]]; rewrite E; auto.
Qed.
Lemma zmax_in l : l <> [] -> In (zmax_l l) l.
Proof.
  destruct l as [|x t]; [congruence|]. intros _. simpl.
  destruct (fold_max_spec t x) as (_ & _ & [H|H]); [left; auto|right; auto].
Qed.
Lemma zmax_ge l y : In y l -> (y <= zmax_l l)%Z.
Proof.
  destruct l as [|x t]; [intros []|]. simpl.
  destruct (fold_max_spec t x) as (H1 & H2 & _). intros [<-|H]; auto.
Qed.
Lemma zmax_unique l m : In m l -> (forall y, In y l -> (y <= m)%Z) -> zmax_l l = m.
Proof.
  intros Hm Hle. assert (Hne : l <> []) by (intro E; subst; inversion Hm).
  pose proof (zmax_in l Hne) as H1. pose proof (zmax_ge l m Hm) as H2.
  specialize (Hle _ H1). lia.
Qed.
Lemma fold_min_spec : forall t x,
  (fold_left Z.min t x <= x)%Z /\ (forall y, In y t -> (fold_left Z.min t x <= y)%Z) /\
  (fold_left Z.min t x = x \/ In (fold_left Z.min t x) t).
Proof.
  induction t as [|y t IH]; intro x; simpl.
  - split; [lia|]. split; [intros y []|auto].
  - destruct (IH (Z.min x y)) as (H1 & H2 & H3). split; [lia|]. split.
    + intros z [<-|Hz]; [lia|auto].
    + destruct H3 as [H3|H3]; auto. rewrite H3. destruct (Z.min_spec x y) as [[_ E]|[_ E]]; rewrite E; auto.
Qed.
Lemma zmin_in l : l <> [] -> In (zmin_l l) l.
Proof.
  destruct l as [|x t]; [congruence|]. intros _. simpl.
  destruct (fold_min_spec t x) as (_ & _ & [H|H]); [left; auto|right; auto].
Qed.
Lemma zmin_le l y : In y l -> (zmin_l l <= y)%Z.
Proof.
  destruct l as [|x t]; [intros []|]. simpl.
  destruct (fold_min_spec t x) as (H1 & H2 & _). intros [<-|H]; auto.
Qed.
Lemma zmin_unique l m : In m l -> (forall y, In y l -> (m <= y)%Z) -> zmin_l l = m.
Proof.
  intros Hm Hle. assert (Hne : l <> []) by (intro E; subst; inversion Hm).
  pose proof (zmin_in l Hne) as H1. pose proof (zmin_le l m Hm) as H2.
  specialize (Hle _ H1). lia.
Qed.

Definition above (lo : Z) (l : list (Z * bool)) : Prop :=
  forall p, In p l -> snd p = false -> (lo <= fst p)%Z.
Definition below (hi : Z) (l : list (Z * bool)) : Prop :=
  forall p, In p l -> snd p = false -> (fst p <= hi)%Z.

Lemma in_filled c l x : In x (filled c l) <-> exists p, In p l /\ fill c p = x.
Proof. unfold filled. rewrite in_map_iff. split; intros (p & A & B); exists p; auto. Qed.

Lemma zmax_filled lo l : forallb snd l = false -> above lo l ->
  zmax_l (filled lo l) = zmax_l (um l).
Proof.
  intros Hm Hlo. pose proof (forallb_snd_false_um l Hm) as Hne.
  pose proof (zmax_in _ Hne) as Hin. apply in_um in Hin. destruct Hin as (p0 & Hp0 & Hm0 & E0).
  apply zmax_unique.
  - apply in_filled. exists p0. split; auto. unfold fill. rewrite Hm0. exact E0.
  - intros y Hy. apply in_filled in Hy. destruct Hy as (p & Hp & <-). unfold fill.
    destruct (snd p) eqn:Ep.
    + rewrite <- E0. apply Hlo; auto.
    + apply zmax_ge. apply in_um. exists p. auto.
Qed.
Lemma zmin_filled hi l : forallb snd l = false -> below hi l ->
  zmin_l (filled hi l) = zmin_l (um l).
Proof.
  intros Hm Hhi. pose proof (forallb_snd_false_um l Hm) as Hne.
  pose proof (zmin_in _ Hne) as Hin. apply in_um in Hin. destruct Hin as (p0 & Hp0 & Hm0 & E0).
  apply zmin_unique.
  - apply in_filled. exists p0. split; auto. unfold fill. rewrite Hm0. exact E0.
  - intros y Hy. apply in_filled in Hy. destruct Hy as (p & Hp & <-). unfold fill.
    destruct (snd p) eqn:Ep.
    + rewrite <- E0. apply Hhi; auto.
    + apply zmin_le. apply in_um. exists p. auto.
Qed.

(* argmax / argmin: the position of the first extreme unmasked contributor *)
Definition dflt : Z * bool := (0%Z, true).
Definition first_max_at (l : list (Z * bool)) (k : nat) : Prop :=
  k < length l /\ snd (nth k l dflt) = false /\
  (forall j, j < length l -> snd (nth j l dflt) = false -> (fst (nth j l dflt) <= fst (nth k l dflt))%Z) /\
  (forall j, j < k -> snd (nth j l dflt) = false -> (fst (nth j l dflt) < fst (nth k l dflt))%Z).
Definition first_min_at (l : list (Z * bool)) (k : nat) : Prop :=
  k < length l /\ snd (nth k l dflt) = false /\
  (forall j, j < length l -> snd (nth j l dflt) = false -> (fst (nth k l dflt) <= fst (nth j l dflt))%Z) /\
  (forall j, j < k -> snd (nth j l dflt) = false -> (fst (nth k l dflt) < fst (nth j l dflt))%Z).

Lemma first_idx_spec {A} (p : A -> bool) (d : A) : forall l, existsb p l = true ->
  first_idx p l < length l /\ p (nth (first_idx p l) l d) = true /\
  forall j, j < first_idx p l -> p (nth j l d) = false.
Proof.
  induction l as [|x l IH]; simpl; [discriminate|]. intro H.
  destruct (p x) eqn:E.
  - split; [lia|]. split; auto. intros j Hj; lia.
  - simpl in H. destruct (IH H) as (H1 & H2 & H3). split; [lia|]. split; auto.
    intros [|j] Hj; auto. apply H3. lia.
Qed.
Lemma existsb_in {A} (p : A -> bool) l x : In x l -> p x = true -> existsb p l = true.
Proof. intros. apply existsb_exists. exists x; auto. Qed.
Lemma nth_filled c l j : nth j (filled c l) (fill c dflt) = fill c (nth j l dflt).
Proof. unfold filled. apply map_nth. Qed.
Lemma filled_length c l : length (filled c l) = length l.
Proof. unfold filled. apply map_length. Qed.
Lemma existsb_unmasked (l : list (Z * bool)) : forallb snd l = false -> existsb (fun p => negb (snd p)) l = true.
Proof. induction l as [|[v m] l IH]; simpl; [discriminate|]. destruct m; simpl; auto. Qed.

Lemma argmax_mixed lo l : forallb snd l = false -> above lo l ->
  first_max_at l (if (zmax_l (filled lo l) =? lo)%Z then first_unmasked l
                  else argmax_l (filled lo l)).
Proof.
  intros Hm Hlo. pose proof (forallb_snd_false_um l Hm) as Hne.
  assert (Hfne : filled lo l <> []).
  { intro E. apply (f_equal (@length Z)) in E. rewrite filled_length in E.
    destruct l; [simpl in Hm; discriminate|discriminate]. }
  pose proof (zmax_in _ Hfne) as HMin.
  assert (HMge : forall j, j < length l -> (fill lo (nth j l dflt) <= zmax_l (filled lo l))%Z).
  { intros j Hj. apply zmax_ge. rewrite <- nth_filled. apply nth_In. rewrite filled_length; auto. }
  assert (Hlo' : forall j, j < length l -> snd (nth j l dflt) = false -> (lo <= fst (nth j l dflt))%Z).
  { intros j Hj Hs. apply Hlo; auto. apply nth_In; auto. }
  destruct (Z.eqb_spec (zmax_l (filled lo l)) lo) as [E|E].
  - (* every unmasked value equals lo: the first unmasked position *)
    unfold first_unmasked. rewrite Hm.
    destruct (first_idx_spec (fun p => negb (snd p)) dflt l (existsb_unmasked l Hm)) as (H1 & H2 & H3).
    apply negb_true_iff in H2.
    assert (Heq : forall j, j < length l -> snd (nth j l dflt) = false -> fst (nth j l dflt) = lo).
    { intros j Hj Hs. specialize (HMge j Hj). specialize (Hlo' j Hj Hs). unfold fill in HMge.
      rewrite Hs in HMge. lia. }
    split; auto. split; auto. split.
    + intros j Hj Hs. rewrite (Heq j Hj Hs), (Heq _ H1 H2). lia.
    + intros j Hj Hs. specialize (H3 j Hj). simpl in H3. rewrite Hs in H3. discriminate.
  - (* the maximum exceeds the fill value, so it sits at an unmasked position *)
    unfold argmax_l. set (M := zmax_l (filled lo l)) in *.
    assert (Hex : existsb (Z.eqb M) (filled lo l) = true).
    { apply existsb_in with (x := M); auto. apply Z.eqb_refl. }
    destruct (first_idx_spec (Z.eqb M) (fill lo dflt) _ Hex) as (H1 & H2 & H3).
    rewrite filled_length in H1. rewrite nth_filled in H2. apply Z.eqb_eq in H2.
    set (k := first_idx (Z.eqb M) (filled lo l)) in *.
    assert (Hk : snd (nth k l dflt) = false).
    { destruct (snd (nth k l dflt)) eqn:Es; auto. unfold fill in H2. rewrite Es in H2. congruence. }
    assert (Hv : fst (nth k l dflt) = M).
    { unfold fill in H2. rewrite Hk in H2. auto. }
    split; auto. split; auto. split.
    + intros j Hj Hs. specialize (HMge j Hj). unfold fill in HMge. rewrite Hs in HMge. lia.
    + intros j Hj Hs. specialize (H3 j Hj). rewrite nth_filled in H3. apply Z.eqb_neq in H3.
      assert (Hj' : j < length l) by lia. specialize (HMge j Hj'). unfold fill in HMge, H3.
      rewrite Hs in HMge, H3. lia.
Qed.

Lemma argmin_mixed hi l : forallb snd l = false -> below hi l ->
  first_min_at l (if (zmin_l (filled hi l) =? hi)%Z then first_unmasked l
                  else argmin_l (filled hi l)).
Proof.
  intros Hm Hhi. pose proof (forallb_snd_false_um l Hm) as Hne.
  assert (Hfne : filled hi l <> []).
  { intro E. apply (f_equal (@length Z)) in E. rewrite filled_length in E.
    destruct l; [simpl in Hm; discriminate|discriminate]. }
  pose proof (zmin_in _ Hfne) as HMin.
  assert (HMge : forall j, j < length l -> (zmin_l (filled hi l) <= fill hi (nth j l dflt))%Z).
  { intros j Hj. apply zmin_le. rewrite <- nth_filled. apply nth_In. rewrite filled_length; auto. }
  assert (Hhi' : forall j, j < length l -> snd (nth j l dflt) = false -> (fst (nth j l dflt) <= hi)%Z).
  { intros j Hj Hs. apply Hhi; auto. apply nth_In; auto. }
  destruct (Z.eqb_spec (zmin_l (filled hi l)) hi) as [E|E].
  - unfold first_unmasked. rewrite Hm.
    destruct (first_idx_spec (fun p => negb (snd p)) dflt l (existsb_unmasked l Hm)) as (H1 & H2 & H3).
    apply negb_true_iff in H2.
    assert (Heq : forall j, j < length l -> snd (nth j l dflt) = false -> fst (nth j l dflt) = hi).
    { intros j Hj Hs. specialize (HMge j Hj). specialize (Hhi' j Hj Hs). unfold fill in HMge.
      rewrite Hs in HMge. lia. }
    split; auto. split; auto. split.
    + intros j Hj Hs. rewrite (Heq j Hj Hs), (Heq _ H1 H2). lia.
    + intros j Hj Hs. specialize (H3 j Hj). simpl in H3. rewrite Hs in H3. discriminate.
  - unfold argmin_l. set (M := zmin_l (filled hi l)) in *.
    assert (Hex : existsb (Z.eqb M) (filled hi l) = true).
    { apply existsb_in with (x := M); auto. apply Z.eqb_refl. }
    destruct (first_idx_spec (Z.eqb M) (fill hi dflt) _ Hex) as (H1 & H2 & H3).
    rewrite filled_length in H1. rewrite nth_filled in H2. apply Z.eqb_eq in H2.
    set (k := first_idx (Z.eqb M) (filled hi l)) in *.
    assert (Hk : snd (nth k l dflt) = false).
    { destruct (snd (nth k l dflt)) eqn:Es; auto. unfold fill in H2. rewrite Es in H2. congruence. }
    assert (Hv : fst (nth k l dflt) = M).
    { unfold fill in H2. rewrite Hk in H2. auto. }
    split; auto. split; auto. split.
    + intros j Hj Hs. specialize (HMge j Hj). unfold fill in HMge. rewrite Hs in HMge. lia.
    + intros j Hj Hs. specialize (H3 j Hj). rewrite nth_filled in H3. apply Z.eqb_neq in H3.
      assert (Hj' : j < length l) by lia. specialize (HMge j Hj'). unfold fill in HMge, H3.
      rewrite Hs in HMge, H3. lia.
Qed.

(* without masks the fill value plays no role *)
Lemma filled_plain c l : unmasked_all l -> filled c l = vals l.
Proof.
  unfold filled, vals, fill, unmasked_all. intro H. apply map_ext_in. intros p Hp.
  rewrite (H p Hp). reflexivity.
Qed.

(* ------------------------------------------------------------------------ *)
(* sorting                                                                    *)
(* ------------------------------------------------------------------------ *)
Lemma insert_perm x l : Permutation (x :: l) (insert x l).
Proof.
  induction l as [|y l IH]; simpl; auto.
  destruct (x <=? y)%Z; auto.
  apply perm_trans with (y :: x :: l); [apply perm_swap|]. apply perm_skip. exact IH.
Qed.
Lemma isort_perm l : Permutation l (isort l).
Proof.
  induction l as [|x l IH]; simpl; auto.
  apply perm_trans with (x :: isort l); auto. apply insert_perm.
Qed.
Lemma insert_sorted x l : Sorted Z.le l -> Sorted Z.le (insert x l).
Proof.
  induction l as [|y l IH]; intro H; simpl.
  - repeat constructor.
  - destruct (Z.leb_spec x y).
    + constructor; auto.
    + inversion H as [|? ? Hs Hh]; subst. constructor; auto.
      destruct l as [|z l]; simpl.
      * constructor. lia.
      * inversion Hh; subst. destruct (Z.leb_spec x z); constructor; lia.
Qed.
Lemma isort_sorted l : Sorted Z.le (isort l).
Proof. induction l; simpl; [constructor|apply insert_sorted; auto]. Qed.
Lemma isort_length l : length (isort l) = length l.
Proof. symmetry. apply Permutation_length. apply isort_perm. Qed.

Lemma sorted_strong l : Sorted Z.le l -> StronglySorted Z.le l.
Proof. apply Sorted_StronglySorted. intros x y z; apply Z.le_trans. Qed.

(* a sorted list is determined by its elements *)
Lemma sorted_perm_eq : forall l1 l2, Sorted Z.le l1 -> Sorted Z.le l2 -> Permutation l1 l2 -> l1 = l2.
Proof.
  induction l1 as [|x l1 IH]; intros l2 H1 H2 Hp.
  - apply Permutation_nil in Hp. auto.
  - destruct l2 as [|y l2]; [apply Permutation_sym, Permutation_nil in Hp; discriminate|].
    apply sorted_strong in H1. apply sorted_strong in H2.
    inversion H1 as [|? ? Hs1 Hf1]; subst. inversion H2 as [|? ? Hs2 Hf2]; subst.
    assert (x = y).
    { assert (Hx : In x (y :: l2)) by (eapply Permutation_in; [exact Hp|left; auto]).
      assert (Hy : In y (x :: l1)) by (eapply Permutation_in; [apply Permutation_sym; exact Hp|left; auto]).
      rewrite Forall_forall in Hf1, Hf2.
      destruct Hx as [Hx|Hx]; auto. destruct Hy as [Hy|Hy]; auto.
      specialize (Hf1 _ Hy). specialize (Hf2 _ Hx). lia. }
    subst y. f_equal. apply IH.
    + apply StronglySorted_Sorted; auto.
    + apply StronglySorted_Sorted; auto.
    + eapply Permutation_cons_inv; eauto.
Qed.

Definition count_m (l : list (Z * bool)) : nat := length (filter snd l).

Lemma filled_perm hi l : Permutation (filled hi l) (um l ++ repeat hi (count_m l)).
Proof.
  unfold filled, um, count_m, fill. induction l as [|[v m] l IH]; simpl; auto.
  destruct m; simpl.
  - apply perm_trans with (hi :: (map fst (filter (fun p => negb (snd p)) l)
                                    ++ repeat hi (length (filter snd l)))); auto.
    apply Permutation_middle.
  - auto.
Qed.

Lemma sorted_app_repeat hi s k : Sorted Z.le s -> (forall x, In x s -> (x <= hi)%Z) ->
  Sorted Z.le (s ++ repeat hi k).
Proof.
  induction s as [|x s IH]; intros Hs Hle; simpl.
  - induction k; simpl; constructor; auto. destruct k; simpl; constructor. lia.
  - inversion Hs as [|? ? Hs' Hh]; subst. constructor.
    + apply IH; auto. intros y Hy. apply Hle. right; auto.
    + destruct s as [|y s]; simpl.
      * destruct k; simpl; constructor. apply Hle. left; auto.
      * inversion Hh; subst. constructor; auto.
Qed.

(* np.sort of the filled values = the sorted unmasked values, then the fill values *)
Lemma isort_filled hi l : below hi l ->
  isort (filled hi l) = isort (um l) ++ repeat hi (count_m l).
Proof.
  intro Hhi. apply sorted_perm_eq.
  - apply isort_sorted.
  - apply sorted_app_repeat; [apply isort_sorted|].
    intros x Hx. apply (Permutation_in _ (Permutation_sym (isort_perm _))) in Hx.
    apply in_um in Hx. destruct Hx as (p & Hp & Hm & <-). apply Hhi; auto.
  - apply perm_trans with (filled hi l); [apply Permutation_sym, isort_perm|].
    apply perm_trans with (um l ++ repeat hi (count_m l)); [apply filled_perm|].
    apply Permutation_app_tail. apply isort_perm.
Qed.

Lemma count_split l : count_um l + count_m l = length l.
Proof.
  unfold count_um, count_m. induction l as [|[v m] l IH]; simpl; auto. destruct m; simpl; lia.
Qed.

Lemma nthZ_sorted_filled hi l k : below hi l -> k < count_um l ->
  nthZ k (isort (filled hi l)) = nthZ k (isort (um l)).
Proof.
  intros Hhi Hk. unfold nthZ. rewrite isort_filled by auto.
  apply app_nth1. rewrite isort_length, <- count_um_length. exact Hk.
Qed.

(* the sorted mask: unmasked slots first *)
Lemma sort_bools_nth l k : k < length l ->
  nth k (sort_bools (map snd l)) false = (count_um l <=? k).
Proof.
  intro Hk. unfold sort_bools.
  assert (E1 : length (filter negb (map snd l)) = count_um l).
  { unfold count_um. clear Hk. induction l as [|[v m] l IH]; simpl; auto. destruct m; simpl; auto. }
  assert (E2 : length (filter (fun b : bool => b) (map snd l)) = count_m l).
  { unfold count_m. clear Hk E1. induction l as [|[v m] l IH]; simpl; auto. destruct m; simpl; auto. }
  rewrite E1, E2. destruct (Nat.leb_spec (count_um l) k).
  - rewrite app_nth2; rewrite repeat_length; [|lia].
    rewrite nth_repeat_true. apply Nat.ltb_lt. pose proof (count_split l). lia.
  - rewrite app_nth1; [|rewrite repeat_length; lia]. apply nth_repeat_false.
Qed.

(* median: the middle one or two of the sorted unmasked values *)
Lemma median_mixed hi l : forallb snd l = false -> below hi l ->
  (let s := isort (filled hi l) in let n := count_um l in
   ((nthZ ((n - 1) / 2) s + nthZ (n / 2) s)%Z, 2%Z)) = median_l (um l).
Proof.
  intros Hm Hhi. cbv zeta. unfold median_l. rewrite <- count_um_length.
  assert (Hn : 0 < count_um l).
  { destruct (count_um l) eqn:E; [|lia]. rewrite <- count_um_zero, E in Hm. discriminate. }
  rewrite !nthZ_sorted_filled; auto.
  - apply Nat.div_lt; lia.
  - apply Nat.div_lt_upper_bound; lia.
Qed.

(* ------------------------------------------------------------------------ *)
(* any / all                                                                  *)
(* ------------------------------------------------------------------------ *)
Lemma any_um l : existsb (fun p => nz (fst p) && negb (snd p)) l = existsb nz (um l).
Proof.
  unfold um. induction l as [|[v m] l IH]; simpl; auto. destruct m; simpl; rewrite IH.
  - rewrite andb_false_r. reflexivity.
  - rewrite andb_true_r. reflexivity.
Qed.
Lemma all_um l : forallb (fun p => nz (fst p) || snd p) l = forallb nz (um l).
Proof.
  unfold um. induction l as [|[v m] l IH]; simpl; auto. destruct m; simpl; rewrite IH.
  - rewrite orb_true_r. reflexivity.
  - rewrite orb_false_r. reflexivity.
Qed.

(* ------------------------------------------------------------------------ *)
(* maximum / minimum: the running masked assignment                           *)
(* ------------------------------------------------------------------------ *)
Definition seen (acc : Z * bool) (rest : list (Z * bool)) : list Z :=
  (if snd acc then [] else [fst acc]) ++ um rest.

Lemma um_cons p l : um (p :: l) = (if snd p then [] else [fst p]) ++ um l.
Proof. unfold um. simpl. destruct (snd p); reflexivity. Qed.

Lemma mm_step_mask b acc c : snd (mm_step b acc c) = snd acc && snd c.
Proof.
  unfold mm_step. destruct acc as [va [|]], c as [vc [|]]; simpl; auto.
  - rewrite orb_true_r. reflexivity.
  - rewrite orb_true_r. reflexivity.
  - rewrite andb_false_r. reflexivity.
  - rewrite andb_true_r, orb_false_r. destruct (b vc va); reflexivity.
Qed.
Lemma mm_step_max acc c rest :
  zmax_l (seen (mm_step Z.gtb acc c) rest) = zmax_l (seen acc (c :: rest)).
Proof.
  unfold mm_step, seen. rewrite um_cons.
  destruct acc as [va [|]], c as [vc [|]]; simpl.
  - rewrite orb_true_r. reflexivity.
  - rewrite orb_true_r. reflexivity.
  - rewrite andb_false_r. reflexivity.
  - rewrite andb_true_r, orb_false_r. destruct (Z.gtb_spec vc va); simpl.
    + rewrite Z.max_r by lia. reflexivity.
    + rewrite Z.max_l by lia. reflexivity.
Qed.
Lemma mm_step_min acc c rest :
  zmin_l (seen (mm_step Z.ltb acc c) rest) = zmin_l (seen acc (c :: rest)).
Proof.
  unfold mm_step, seen. rewrite um_cons.
  destruct acc as [va [|]], c as [vc [|]]; simpl.
  - rewrite orb_true_r. reflexivity.
  - rewrite orb_true_r. reflexivity.
  - rewrite andb_false_r. reflexivity.
  - rewrite andb_true_r, orb_false_r. destruct (Z.ltb_spec vc va); simpl.
    + rewrite Z.min_r by lia. reflexivity.
    + rewrite Z.min_l by lia. reflexivity.
Qed.

Lemma mm_fold_max : forall rest acc,
  snd (fold_left (mm_step Z.gtb) rest acc) = snd acc && forallb snd rest /\
  (snd (fold_left (mm_step Z.gtb) rest acc) = false ->
   fst (fold_left (mm_step Z.gtb) rest acc) = zmax_l (seen acc rest)).
Proof.
  induction rest as [|c rest IH]; intro acc; simpl.
  - rewrite andb_true_r. split; auto. intro H. unfold seen. rewrite H. reflexivity.
  - destruct (IH (mm_step Z.gtb acc c)) as [H1 H2]. rewrite H1, mm_step_mask, <- andb_assoc.
    split; auto. intro H. rewrite <- mm_step_max. apply H2. rewrite H1, mm_step_mask, <- andb_assoc. exact H.
Qed.
Lemma mm_fold_min : forall rest acc,
  snd (fold_left (mm_step Z.ltb) rest acc) = snd acc && forallb snd rest /\
  (snd (fold_left (mm_step Z.ltb) rest acc) = false ->
   fst (fold_left (mm_step Z.ltb) rest acc) = zmin_l (seen acc rest)).
Proof.
  induction rest as [|c rest IH]; intro acc; simpl.
  - rewrite andb_true_r. split; auto. intro H. unfold seen. rewrite H. reflexivity.
  - destruct (IH (mm_step Z.ltb acc c)) as [H1 H2]. rewrite H1, mm_step_mask, <- andb_assoc.
    split; auto. intro H. rewrite <- mm_step_min. apply H2. rewrite H1, mm_step_mask, <- andb_assoc. exact H.
Qed.

(* ------------------------------------------------------------------------ *)
(* array level: every branch of the skeleton meets the reference             *)
(* ------------------------------------------------------------------------ *)
Arguments red_shape : simpl never.
Arguments out_shape : simpl never.
Arguments all_mi : simpl never.
Arguments merge_idx : simpl never.
Arguments size : simpl never.

(* contributors (value, masked) of output element [o], row-major over the reduced axes *)
Definition cpairs (a : nobj) (keep : list bool) (o : mi) : list (Z * bool) :=
  contrib (parr a) keep o.

(* L7 reference: shape, "masked iff no unmasked contributor", value related by [R] to
   the contributors (for the arithmetic reductions R fixes the value as a function of
   [um], the unmasked contributors in row-major order) *)
Definition red_ok (R : list (Z * bool) -> Z * Z -> Prop) (a : nobj) (sel : list bool)
    (x : res) : Prop :=
  exists r, x = ROk r /\ rsh r = out_shape (nsh a) (keep_of sel) /\
    forall o, inb (rsh r) o = true ->
      rmask r o = forallb snd (cpairs a (keep_of sel) o) /\
      (rmask r o = false -> R (cpairs a (keep_of sel) o) (rval r o)).

Lemma cpairs_in a keep o p : In p (cpairs a keep o) ->
  exists r, In r (all_mi (red_shape (nsh a) keep)) /\
            p = (nval a (merge_idx keep o r), mget (nmask a) (merge_idx keep o r)).
Proof.
  unfold cpairs, contrib. simpl. intro H. apply in_map_iff in H.
  destruct H as (r & E & Hr). exists r. split; auto.
Qed.
Lemma cpairs_nonempty a keep o : size (nsh a) <> 0 -> cpairs a keep o <> [].
Proof.
  intros H E. unfold cpairs, contrib in E. simpl in E. apply map_eq_nil in E.
  apply (red_nonempty _ keep) in H. contradiction.
Qed.
Lemma cpairs_unmasked a keep o : length keep = length (nsh a) ->
  inb (out_shape (nsh a) keep) o = true -> any_mask a = false -> unmasked_all (cpairs a keep o).
Proof.
  intros Hl Ho Hm p Hp. apply cpairs_in in Hp. destruct Hp as (r & Hr & ->). simpl.
  apply in_all_mi in Hr. pose proof (merge_inb _ _ _ _ Hl Ho Hr) as Hi.
  apply in_all_mi in Hi. unfold any_mask in Hm.
  destruct (mget (nmask a) (merge_idx keep o r)) eqn:E; auto.
  assert (existsb (mget (nmask a)) (all_mi (nsh a)) = true)
    by (apply existsb_exists; eexists; split; eauto). congruence.
Qed.
Lemma cpairs_allmasked a keep o : length keep = length (nsh a) ->
  inb (out_shape (nsh a) keep) o = true -> all_mask a = true ->
  forallb snd (cpairs a keep o) = true.
Proof.
  intros Hl Ho Hm. apply forallb_forall. intros p Hp. apply cpairs_in in Hp.
  destruct Hp as (r & Hr & ->). simpl. apply in_all_mi in Hr.
  pose proof (merge_inb _ _ _ _ Hl Ho Hr) as Hi. apply in_all_mi in Hi.
  unfold all_mask in Hm. rewrite forallb_forall in Hm. auto.
Qed.
(* axis=None: the one output element sees the whole array in row-major order *)
Lemma cpairs_all a : cpairs a (repeat false (length (nsh a))) [] =
  map (fun i => (nval a i, mget (nmask a) i)) (all_mi (nsh a)).
Proof.
  unfold cpairs, contrib. simpl. rewrite red_shape_allfalse. apply map_ext_in.
  intros r Hr. apply in_all_mi in Hr. rewrite merge_allfalse; auto.
Qed.
Lemma forallb_map {A B} (f : A -> B) (p : B -> bool) l :
  forallb p (map f l) = forallb (fun x => p (f x)) l.
Proof. induction l; simpl; auto. rewrite IHl. reflexivity. Qed.

Section Skeleton.
  Variables (a : nobj) (ax : axarg) (shapeless : res).
  Variables (plain mixed : list (Z * bool) -> Z * Z)
            (none_mixed : option (list (Z * bool) -> Z * Z))
            (mmask : list (Z * bool) -> bool).
  Variable R : list (Z * bool) -> Z * Z -> Prop.
  Variable Q : Z * bool -> Prop.
  Hypothesis HQ : forall i, Q (nval a i, mget (nmask a) i).
  Hypothesis Hplain : forall l, l <> [] -> unmasked_all l -> (forall p, In p l -> Q p) -> R l (plain l).
  Hypothesis Hmixed : forall l, (forall p, In p l -> Q p) -> forallb snd l = false -> R l (mixed l).
  Hypothesis Hnone : forall f, none_mixed = Some f ->
    forall l, (forall p, In p l -> Q p) -> forallb snd l = false -> R l (f l).
  Hypothesis Hmmask : forall l, mmask l = forallb snd l.

  Lemma cpairs_Q keep o : forall p, In p (cpairs a keep o) -> Q p.
  Proof. intros p Hp. apply cpairs_in in Hp. destruct Hp as (r & _ & ->). apply HQ. Qed.

  Lemma skel_ok sel : nsh a <> [] -> size (nsh a) <> 0 ->
    axes_sel (length (nsh a)) ax = Some sel ->
    red_ok R a sel (skel a ax shapeless plain none_mixed mixed mmask).
  Proof.
    intros Hsh Hsz Hsel. unfold skel. rewrite Hsel.
    pose proof (keep_length _ _ _ Hsel) as Hkl.
    destruct (nsh a) as [|n0 s0] eqn:Es; [congruence|]. rewrite <- Es in *.
    destruct (Nat.eqb_spec (size (nsh a)) 0) as [E0|_]; [contradiction|].
    destruct (any_mask a) eqn:Eany; simpl.
    2:{ (* no mask *)
      eexists. split; [reflexivity|]. split; [reflexivity|]. simpl. intros o Ho.
      pose proof (cpairs_unmasked a _ o Hkl Ho Eany) as Hu.
      pose proof (cpairs_nonempty a (keep_of sel) o Hsz) as Hne.
      split; [symmetry; apply unmasked_all_forallb; auto|].
      intros _. apply Hplain; auto. apply cpairs_Q. }
    destruct (all_mask a) eqn:Eall.
    { (* everything masked *)
      eexists. split; [reflexivity|]. split; [reflexivity|]. simpl. intros o Ho.
      split; [symmetry; apply cpairs_allmasked; auto|discriminate]. }
    assert (Gen : red_ok R a sel
              (ROk (mkr (out_shape (nsh a) (keep_of sel))
                        (fun o => mixed (contrib (parr a) (keep_of sel) o))
                        (fun o => mmask (contrib (parr a) (keep_of sel) o))))).
    { eexists. split; [reflexivity|]. split; [reflexivity|]. simpl. intros o Ho.
      split; [apply Hmmask|]. rewrite Hmmask. intro Hm. apply Hmixed; auto. apply cpairs_Q. }
    destruct ax as [|z|lz]; try exact Gen.
    destruct none_mixed as [f|] eqn:En; try exact Gen.
    (* axis=None short cut: one output element, contributors = the whole array *)
    eexists. split; [reflexivity|]. split; [reflexivity|]. simpl. intros o Ho.
    simpl in Hsel. injection Hsel as <-. unfold keep_of in *. rewrite map_negb_repeat_true in *.
    rewrite out_shape_allfalse in Ho. destruct o; [|discriminate].
    assert (Hf : forallb snd (cpairs a (repeat false (length (nsh a))) []) = false).
    { rewrite cpairs_all, forallb_map. simpl. exact Eall. }
    split; [symmetry; exact Hf|]. intros _. apply (Hnone f eq_refl); auto. apply cpairs_Q.
  Qed.

  Lemma skel_illegal : axes_sel (length (nsh a)) ax = None ->
    skel a ax shapeless plain none_mixed mixed mmask = RErr.
  Proof. intro H. unfold skel. rewrite H. reflexivity. Qed.

  Lemma skel_shapeless sel : nsh a = [] -> axes_sel 0 ax = Some sel ->
    skel a ax shapeless plain none_mixed mixed mmask = shapeless.
  Proof. intros H Hs. unfold skel. rewrite H. simpl length. rewrite Hs. reflexivity. Qed.

  Lemma skel_zero sel : nsh a <> [] -> size (nsh a) = 0 ->
    axes_sel (length (nsh a)) ax = Some sel ->
    skel a ax shapeless plain none_mixed mixed mmask = ROk (zero_sized (nsh a) (keep_of sel)).
  Proof.
    intros Hsh Hsz Hsel. unfold skel. rewrite Hsel.
    destruct (nsh a) as [|n0 s0] eqn:Es; [congruence|]. rewrite Hsz. reflexivity.
  Qed.
End Skeleton.

(* an output element of a zero-sized object has no contributors at all *)
Lemma size_split : forall s keep, length keep = length s ->
  size s = size (out_shape s keep) * size (red_shape s keep).
Proof.
  induction s as [|n s IH]; intros [|k keep] Hl; simpl in Hl; try discriminate; auto.
  injection Hl as Hl. specialize (IH keep Hl).
  destruct k; unfold out_shape, red_shape, size in *; fold out_shape red_shape size in *;
    rewrite IH; lia.
Qed.
Lemma zero_size_no_contrib a keep o : length keep = length (nsh a) -> size (nsh a) = 0 ->
  inb (out_shape (nsh a) keep) o = true -> cpairs a keep o = [].
Proof.
  intros Hl Hz Ho. rewrite (size_split _ _ Hl) in Hz.
  assert (size (out_shape (nsh a) keep) <> 0).
  { apply in_all_mi in Ho. rewrite <- all_mi_length. destruct (all_mi _); [inversion Ho|simpl; lia]. }
  assert (Hr : size (red_shape (nsh a) keep) = 0) by nia.
  unfold cpairs, contrib. simpl. rewrite <- all_mi_length in Hr.
  destruct (all_mi (red_shape (nsh a) keep)); [reflexivity|discriminate].
Qed.

(* ---- the reductions ---- *)
Definition R_sum (l : list (Z * bool)) (v : Z * Z) : Prop := v = unit (zsum (um l)).
Definition R_mean (l : list (Z * bool)) (v : Z * Z) : Prop := v = (zsum (um l), znat (length (um l))).
Definition R_max (l : list (Z * bool)) (v : Z * Z) : Prop := v = unit (zmax_l (um l)).
Definition R_min (l : list (Z * bool)) (v : Z * Z) : Prop := v = unit (zmin_l (um l)).
Definition R_argmax (l : list (Z * bool)) (v : Z * Z) : Prop :=
  exists k, v = unit (znat k) /\ first_max_at l k.
Definition R_argmin (l : list (Z * bool)) (v : Z * Z) : Prop :=
  exists k, v = unit (znat k) /\ first_min_at l k.
Definition R_median (l : list (Z * bool)) (v : Z * Z) : Prop := v = median_l (um l).

Lemma q_sum_ok a ax sel : nsh a <> [] -> size (nsh a) <> 0 ->
  axes_sel (length (nsh a)) ax = Some sel -> red_ok R_sum a sel (q_sum ax a).
Proof.
  intros. unfold q_sum. apply skel_ok with (Q := fun _ => True); auto; unfold R_sum.
  - intros l _ Hu _. rewrite um_plain; auto.
  - intros l _ _. rewrite zsum_filled. reflexivity.
  - intros f E l _ _. injection E as <-. reflexivity.
  - apply count_um_zero.
Qed.
Lemma q_mean_ok a ax sel : nsh a <> [] -> size (nsh a) <> 0 ->
  axes_sel (length (nsh a)) ax = Some sel -> red_ok R_mean a sel (q_mean ax a).
Proof.
  intros. unfold q_mean. apply skel_ok with (Q := fun _ => True); auto; unfold R_mean.
  - intros l _ Hu _. rewrite um_plain; auto. unfold vals. rewrite map_length. reflexivity.
  - intros l _ Hm. rewrite zsum_filled, <- count_um_length.
    destruct (count_um l) eqn:E; [rewrite <- count_um_zero, E in Hm; discriminate|].
    rewrite Nat.max_l by lia. reflexivity.
  - intros f E l _ _. injection E as <-. rewrite count_um_length. reflexivity.
  - apply count_um_zero.
Qed.

Definition ge_lo (lo : Z) (p : Z * bool) : Prop := snd p = false -> (lo <= fst p)%Z.
Definition le_hi (hi : Z) (p : Z * bool) : Prop := snd p = false -> (fst p <= hi)%Z.

Lemma q_max_ok lo a ax sel : (forall i, mget (nmask a) i = false -> (lo <= nval a i)%Z) ->
  nsh a <> [] -> size (nsh a) <> 0 ->
  axes_sel (length (nsh a)) ax = Some sel -> red_ok R_max a sel (q_max lo ax a).
Proof.
  intros Hlo ? ? ?. unfold q_max. apply skel_ok with (Q := ge_lo lo); auto; unfold R_max.
  - intros l _ Hu _. rewrite um_plain; auto.
  - intros l HQ Hm. rewrite zmax_filled; auto; intros p Hp; apply HQ; auto.
  - intros f E. discriminate.
Qed.
Lemma q_min_ok hi a ax sel : (forall i, mget (nmask a) i = false -> (nval a i <= hi)%Z) ->
  nsh a <> [] -> size (nsh a) <> 0 ->
  axes_sel (length (nsh a)) ax = Some sel -> red_ok R_min a sel (q_min hi ax a).
Proof.
  intros Hhi ? ? ?. unfold q_min. apply skel_ok with (Q := le_hi hi); auto; unfold R_min.
  - intros l _ Hu _. rewrite um_plain; auto.
  - intros l HQ Hm. rewrite zmin_filled; auto; intros p Hp; apply HQ; auto.
  - intros f E. discriminate.
Qed.

Lemma in_vals l p : In p l -> In (fst p) (vals l).
Proof. intro H. unfold vals. apply in_map. exact H. Qed.
Lemma vals_nonempty l : l <> [] -> vals l <> [].
Proof. destruct l; [congruence|discriminate]. Qed.

Lemma argmax_plain l : l <> [] -> unmasked_all l -> first_max_at l (argmax_l (vals l)).
Proof.
  intros Hne Hu. set (lo := (zmin_l (vals l) - 1)%Z).
  assert (Hab : above lo l).
  { intros p Hp _. pose proof (zmin_le _ _ (in_vals l p Hp)). unfold lo. lia. }
  pose proof (argmax_mixed lo l (unmasked_all_forallb l Hu Hne) Hab) as H.
  rewrite (filled_plain lo l Hu) in H.
  destruct (Z.eqb_spec (zmax_l (vals l)) lo) as [E|_]; auto.
  pose proof (zmax_ge _ _ (zmin_in _ (vals_nonempty l Hne))). unfold lo in E. lia.
Qed.
Lemma argmin_plain l : l <> [] -> unmasked_all l -> first_min_at l (argmin_l (vals l)).
Proof.
  intros Hne Hu. set (hi := (zmax_l (vals l) + 1)%Z).
  assert (Hab : below hi l).
  { intros p Hp _. pose proof (zmax_ge _ _ (in_vals l p Hp)). unfold hi. lia. }
  pose proof (argmin_mixed hi l (unmasked_all_forallb l Hu Hne) Hab) as H.
  rewrite (filled_plain hi l Hu) in H.
  destruct (Z.eqb_spec (zmin_l (vals l)) hi) as [E|_]; auto.
  pose proof (zmin_le _ _ (zmax_in _ (vals_nonempty l Hne))). unfold hi in E. lia.
Qed.

Lemma q_argmax_ok lo a ax sel : (forall i, mget (nmask a) i = false -> (lo <= nval a i)%Z) ->
  (forall l, ax <> AxTup l) -> nsh a <> [] -> size (nsh a) <> 0 ->
  axes_sel (length (nsh a)) ax = Some sel -> red_ok R_argmax a sel (q_argmax lo ax a).
Proof.
  intros Hlo Hax ? ? ?. unfold q_argmax.
  assert (E : forall r, only_int_axis ax r = r) by (intro r; destruct ax; auto; exfalso; eapply Hax; eauto).
  rewrite E. apply skel_ok with (Q := ge_lo lo); auto; unfold R_argmax.
  - intros l Hne Hu _. eexists. split; [reflexivity|]. apply argmax_plain; auto.
  - intros l HQ Hm. eexists. split; [reflexivity|]. apply argmax_mixed; auto;
    intros p Hp; apply HQ; auto.
  - intros f E'. discriminate.
Qed.
Lemma q_argmin_ok hi a ax sel : (forall i, mget (nmask a) i = false -> (nval a i <= hi)%Z) ->
  (forall l, ax <> AxTup l) -> nsh a <> [] -> size (nsh a) <> 0 ->
  axes_sel (length (nsh a)) ax = Some sel -> red_ok R_argmin a sel (q_argmin hi ax a).
Proof.
  intros Hhi Hax ? ? ?. unfold q_argmin.
  assert (E : forall r, only_int_axis ax r = r) by (intro r; destruct ax; auto; exfalso; eapply Hax; eauto).
  rewrite E. apply skel_ok with (Q := le_hi hi); auto; unfold R_argmin.
  - intros l Hne Hu _. eexists. split; [reflexivity|]. apply argmin_plain; auto.
  - intros l HQ Hm. eexists. split; [reflexivity|]. apply argmin_mixed; auto;
    intros p Hp; apply HQ; auto.
  - intros f E'. discriminate.
Qed.

Lemma q_median_ok hi a ax sel : (forall i, mget (nmask a) i = false -> (nval a i <= hi)%Z) ->
  nsh a <> [] -> size (nsh a) <> 0 ->
  axes_sel (length (nsh a)) ax = Some sel -> red_ok R_median a sel (q_median hi ax a).
Proof.
  intros Hhi ? ? ?. unfold q_median. apply skel_ok with (Q := le_hi hi); auto; unfold R_median.
  - intros l _ Hu _. rewrite um_plain; auto.
  - intros l HQ Hm. apply median_mixed; auto; intros p Hp; apply HQ; auto.
  - intros f E l _ _. injection E as <-. reflexivity.
  - apply count_um_zero.
Qed.

(* ---- any / all ---- *)
Definition R_any (l : list (Z * bool)) (v : Z * Z) : Prop := v = bz (existsb nz (um l)).
Definition R_all (l : list (Z * bool)) (v : Z * Z) : Prop := v = bz (forallb nz (um l)).

Definition R_anyall (isall : bool) : list (Z * bool) -> Z * Z -> Prop :=
  if isall then R_all else R_any.

Lemma q_anyall_ok isall a ax sel : nsh a <> [] -> size (nsh a) <> 0 ->
  axes_sel (length (nsh a)) ax = Some sel ->
  red_ok (R_anyall isall) a sel (q_anyall isall ax a).
Proof.
  intros Hsh Hsz Hsel. unfold q_anyall. pose proof (keep_length _ _ _ Hsel) as Hkl.
  destruct (nsh a) as [|n0 s0] eqn:Es; [congruence|]. rewrite <- Es in *. rewrite Hsel.
  destruct (nmask a) as [b|f] eqn:Em.
  - eexists. split; [reflexivity|]. split; [reflexivity|]. simpl. intros o Ho.
    fold (cpairs a (keep_of sel) o).
    pose proof (cpairs_nonempty a (keep_of sel) o Hsz) as Hne.
    destruct b.
    + split; [|discriminate]. symmetry. apply forallb_forall. intros p Hp.
      apply cpairs_in in Hp. destruct Hp as (r & _ & ->). simpl. rewrite Em. reflexivity.
    + assert (Hu : unmasked_all (cpairs a (keep_of sel) o)).
      { intros p Hp. apply cpairs_in in Hp. destruct Hp as (r & _ & ->). simpl. rewrite Em. reflexivity. }
      split; [symmetry; apply unmasked_all_forallb; auto|]. intros _.
      destruct isall; unfold R_anyall, R_all, R_any; rewrite um_plain; auto.
  - eexists. split; [reflexivity|]. split; [reflexivity|]. simpl. intros o Ho.
    fold (cpairs a (keep_of sel) o). split; [reflexivity|]. intros _.
    destruct isall; unfold R_anyall, R_all, R_any; [rewrite all_um|rewrite any_um]; reflexivity.
Qed.

(* R: over a zero-length axis the code as it stands returns an UNMASKED element that
   has no contributor at all (known finding KF-C13-anyall-empty) *)
Definition empty_wit : nobj := mkn (2 :: 0 :: nil) (fun _ : mi => 0%Z) (MS false).
Definition empty_res : robj := mkr (2 :: nil) (fun _ : mi => bz false) (fun _ : mi => false).
Lemma q_anyall_empty_refuted :
  exists a ax r o, q_anyall false ax a = ROk r /\ inb (rsh r) o = true /\
    cpairs a (keep_of (false :: true :: nil)) o = nil /\ rmask r o = false.
Proof.
  exists empty_wit. exists (AxInt 1%Z). exists empty_res. exists (0 :: nil).
  split; [reflexivity|]. split; [reflexivity|]. split; reflexivity.
Qed.

(* ---- sort ---- *)
Lemma pick_red_inb : forall s keep i, length keep = length s -> inb s i = true ->
  inb (red_shape s keep) (pick keep false i) = true.
Proof.
  induction s as [|n s IH]; intros keep i Hl Hi.
  - destruct keep; simpl in *; [reflexivity|discriminate].
  - destruct keep as [|k keep]; simpl in Hl; [discriminate|]. injection Hl as Hl.
    destruct i as [|x i]; simpl in Hi; [discriminate|].
    apply andb_true_iff in Hi. destruct Hi as [H1 H2].
    destruct k; unfold red_shape; fold red_shape; simpl.
    + apply IH; auto.
    + rewrite H1. simpl. apply IH; auto.
Qed.
Lemma hd_lt_size s r : inb s r = true -> size s <> 0 -> hd 0 r < size s.
Proof.
  destruct s as [|n s], r as [|x r]; unfold size; fold size; simpl; try discriminate; try lia.
  intros H Hz. apply andb_true_iff in H. destruct H as [H _]. apply Nat.ltb_lt in H.
  destruct (size s) as [|m]; [lia|]. rewrite Nat.mul_succ_r. lia.
Qed.
Lemma cpairs_length a keep o : length (cpairs a keep o) = size (red_shape (nsh a) keep).
Proof. unfold cpairs, contrib. rewrite map_length. apply all_mi_length. Qed.
Lemma existsb_const_true {A} (b : bool) (l : list A) : existsb (fun _ => b) l = true -> b = true.
Proof. induction l; simpl; [discriminate|]. destruct b; auto. Qed.

(* the line through result element [i] and the position of [i] on it *)
Definition sort_line (a : nobj) (ax : axarg) (sel : list bool) (i : mi) : list (Z * bool) :=
  cpairs a (keep_of sel) (match ax with AxNone => [] | _ => pick (keep_of sel) true i end).
Definition sort_pos (ax : axarg) (sel : list bool) (i : mi) : nat :=
  match ax with AxNone => hd 0 i | _ => hd 0 (pick (keep_of sel) false i) end.

Lemma q_sort_ok hi a ax sel : (forall i, mget (nmask a) i = false -> (nval a i <= hi)%Z) ->
  (forall l, ax <> AxTup l) -> size (nsh a) <> 0 ->
  axes_sel (length (nsh a)) ax = Some sel ->
  exists r, q_sort hi ax a = ROk r /\
    rsh r = match ax with AxNone => [size (nsh a)] | _ => nsh a end /\
    forall i, inb (rsh r) i = true ->
      let L := sort_line a ax sel i in let k := sort_pos ax sel i in
      k < length L /\
      rmask r i = (count_um L <=? k) /\
      (rmask r i = false -> rval r i = unit (nthZ k (isort (um L)))).
Proof.
  intros Hhi Hax Hsz Hsel. pose proof (keep_length _ _ _ Hsel) as Hkl.
  assert (Hbelow : forall o, below hi (cpairs a (keep_of sel) o)).
  { intros o p Hp. apply cpairs_in in Hp. destruct Hp as (r & _ & ->). simpl. apply Hhi. }
  (* position on the line is in range, and the line's out-index is in bounds *)
  assert (Hpos : forall i,
            inb (match ax with AxNone => [size (nsh a)] | _ => nsh a end) i = true ->
            sort_pos ax sel i < length (sort_line a ax sel i) /\
            inb (out_shape (nsh a) (keep_of sel))
                (match ax with AxNone => [] | _ => pick (keep_of sel) true i end) = true).
  { intros i Hi. unfold sort_line, sort_pos. rewrite cpairs_length.
    destruct ax as [|z|lz].
    - simpl in Hsel. injection Hsel as <-. unfold keep_of. rewrite map_negb_repeat_true.
      rewrite red_shape_allfalse, out_shape_allfalse. split; [|reflexivity].
      destruct i as [|x i]; simpl in Hi; [discriminate|]. simpl.
      apply andb_true_iff in Hi. destruct Hi as [Hi _]. apply Nat.ltb_lt in Hi. exact Hi.
    - split; [|apply pick_inb; auto].
      apply hd_lt_size; [apply pick_red_inb; auto|apply red_size_nonzero; auto].
    - exfalso. eapply Hax; eauto. }
  unfold q_sort. destruct ax as [|z|lz]; [| |exfalso; eapply Hax; eauto]; rewrite Hsel;
    (destruct (Nat.eqb_spec (size (nsh a)) 0) as [E0|_]; [contradiction|]);
    destruct (any_mask a) eqn:Eany; simpl;
    (eexists; split; [reflexivity|]; split; [reflexivity|]; simpl; intros i Hi;
     destruct (Hpos i Hi) as [Hk Ho]; unfold sort_line, sort_pos in *;
     split; [exact Hk|]).
  all: repeat match goal with
    | |- context [contrib (parr ?x) ?k ?o] => fold (cpairs x k o)
    end.
  - (* axis=None, some mask *)
    set (L := cpairs a (keep_of sel) []) in *.
    assert (Hm : (match nmask a with MS b => b | MA _ => nth (hd 0 i) (sort_bools (map snd L)) false end)
                 = (count_um L <=? hd 0 i)).
    { destruct (nmask a) as [b|f] eqn:Em.
      - unfold any_mask in Eany. rewrite Em in Eany. simpl in Eany. apply existsb_const_true in Eany.
        subst b. assert (Hz : count_um L = 0).
        { apply Nat.eqb_eq. rewrite count_um_zero. apply forallb_forall. intros p Hp.
          apply cpairs_in in Hp. destruct Hp as (r & _ & ->). simpl. rewrite Em. reflexivity. }
        rewrite Hz. reflexivity.
      - apply sort_bools_nth; auto. }
    split; [exact Hm|]. rewrite Hm. intro Hlt. apply Nat.leb_gt in Hlt.
    rewrite nthZ_sorted_filled; auto. apply Hbelow.
  - (* axis=None, no mask *)
    set (L := cpairs a (keep_of sel) []) in *.
    pose proof (cpairs_unmasked a _ _ Hkl Ho Eany) as Hu. fold L in Hu.
    assert (Hc : count_um L = length L).
    { rewrite count_um_length, um_plain; auto. unfold vals. apply map_length. }
    split; [symmetry; apply Nat.leb_gt; lia|]. intros _. rewrite um_plain; auto.
  - (* integer axis, some mask *)
    set (L := cpairs a (keep_of sel) (pick (keep_of sel) true i)) in *.
    set (k := hd 0 (pick (keep_of sel) false i)) in *.
    assert (Hm : (match nmask a with MS b => b | MA _ => nth k (sort_bools (map snd L)) false end)
                 = (count_um L <=? k)).
    { destruct (nmask a) as [b|f] eqn:Em.
      - unfold any_mask in Eany. rewrite Em in Eany. simpl in Eany. apply existsb_const_true in Eany.
        subst b. assert (Hz : count_um L = 0).
        { apply Nat.eqb_eq. rewrite count_um_zero. apply forallb_forall. intros p Hp.
          apply cpairs_in in Hp. destruct Hp as (r & _ & ->). simpl. rewrite Em. reflexivity. }
        rewrite Hz. reflexivity.
      - apply sort_bools_nth; auto. }
    split; [exact Hm|]. rewrite Hm. intro Hlt. apply Nat.leb_gt in Hlt.
    rewrite nthZ_sorted_filled; auto. apply Hbelow.
  - (* integer axis, no mask *)
    set (L := cpairs a (keep_of sel) (pick (keep_of sel) true i)) in *.
    set (k := hd 0 (pick (keep_of sel) false i)) in *.
    pose proof (cpairs_unmasked a _ _ Hkl Ho Eany) as Hu. fold L in Hu.
    assert (Hc : count_um L = length L).
    { rewrite count_um_length, um_plain; auto. unfold vals. apply map_length. }
    split; [symmetry; apply Nat.leb_gt; lia|]. intros _. rewrite um_plain; auto.
Qed.

(* ---- maximum / minimum ---- *)
Definition cands_at (cs : list nobj) (r : mi) : list (Z * bool) := map (fun c => cand_at c r) cs.

Lemma q_maxmin_ok ismin cs r : q_maxmin ismin cs = ROk r ->
  forall i, rmask r i = forallb snd (cands_at cs i) /\
            (rmask r i = false ->
             rval r i = unit ((if ismin then zmin_l else zmax_l) (um (cands_at cs i)))).
Proof.
  unfold q_maxmin. destruct cs as [|c0 rest]; [discriminate|].
  destruct (fold_left _ rest (Some (nsh c0))) as [s|]; [|discriminate].
  intro H. injection H as <-. intro i. simpl. unfold cands_at. simpl map.
  rewrite um_cons. fold (seen (cand_at c0 i) (map (fun c => cand_at c i) rest)).
  destruct ismin.
  - destruct (mm_fold_min (map (fun c => cand_at c i) rest) (cand_at c0 i)) as [H1 H2].
    split; [exact H1|]. intro H. rewrite (H2 H). reflexivity.
  - destruct (mm_fold_max (map (fun c => cand_at c i) rest) (cand_at c0 i)) as [H1 H2].
    split; [exact H1|]. intro H. rewrite (H2 H). reflexivity.
Qed.

(* ---- illegal axes, zero-sized and shapeless operands, item-wise reductions ---- *)
Lemma illegal_axis_rejected lo hi a ax : axes_sel (length (nsh a)) ax = None ->
  q_sum ax a = RErr /\ q_mean ax a = RErr /\ q_max lo ax a = RErr /\ q_min hi ax a = RErr /\
  q_argmax lo ax a = RErr /\ q_argmin hi ax a = RErr /\ q_median hi ax a = RErr /\
  q_sort hi ax a = RErr /\ (forall isall, q_anyall isall ax a = RErr).
Proof.
  intro H. unfold q_sum, q_mean, q_max, q_min, q_argmax, q_argmin, q_median.
  rewrite !skel_illegal by exact H. repeat split; auto.
  - destruct ax; reflexivity.
  - destruct ax; reflexivity.
  - unfold q_sort. rewrite H. destruct ax; reflexivity.
  - intros isall. unfold q_anyall. rewrite H. reflexivity.
Qed.

Lemma zero_sized_results lo hi a ax sel : nsh a <> [] -> size (nsh a) = 0 ->
  axes_sel (length (nsh a)) ax = Some sel -> (forall l, ax <> AxTup l) ->
  let z := ROk (zero_sized (nsh a) (keep_of sel)) in
  q_sum ax a = z /\ q_mean ax a = z /\ q_max lo ax a = z /\ q_min hi ax a = z /\
  q_argmax lo ax a = z /\ q_argmin hi ax a = z /\ q_median hi ax a = z.
Proof.
  intros Hs Hz Hsel Hax. unfold q_sum, q_mean, q_max, q_min, q_argmax, q_argmin, q_median.
  rewrite !(skel_zero _ _ _ _ _ _ _ sel Hs Hz Hsel).
  assert (E : forall r, only_int_axis ax r = r) by (intro r; destruct ax; auto; exfalso; eapply Hax; eauto).
  rewrite !E. repeat split; reflexivity.
Qed.
Lemma zero_sized_tuple a ax sel : nsh a <> [] -> size (nsh a) = 0 ->
  axes_sel (length (nsh a)) ax = Some sel ->
  let z := ROk (zero_sized (nsh a) (keep_of sel)) in
  q_sum ax a = z /\ q_mean ax a = z /\
  (forall lo, q_max lo ax a = z) /\ (forall hi, q_min hi ax a = z /\ q_median hi ax a = z).
Proof.
  intros Hs Hz Hsel. unfold q_sum, q_mean, q_max, q_min, q_median.
  repeat split; intros; apply (skel_zero _ _ _ _ _ _ _ sel Hs Hz Hsel).
Qed.
(* the zero-sized result: NumPy's shape, every element masked, and indeed no element of
   it has any contributor *)
Lemma zero_sized_spec a sel o : length (keep_of sel) = length (nsh a) -> size (nsh a) = 0 ->
  rsh (zero_sized (nsh a) (keep_of sel)) = out_shape (nsh a) (keep_of sel) /\
  rmask (zero_sized (nsh a) (keep_of sel)) o = true /\
  (inb (out_shape (nsh a) (keep_of sel)) o = true -> cpairs a (keep_of sel) o = []).
Proof.
  intros Hl Hz. split; [reflexivity|]. split; [reflexivity|].
  intro Ho. apply zero_size_no_contrib; auto.
Qed.

Lemma shapeless_results lo hi a ax sel : nsh a = [] -> axes_sel 0 ax = Some sel ->
  q_sum ax a = self_res a unit /\ q_mean ax a = self_res a unit /\
  q_max lo ax a = self_res a unit /\ q_min hi ax a = self_res a unit /\
  q_median hi ax a = self_res a unit /\
  (forall isall, q_anyall isall ax a = self_res a (fun v => bz (nz v))).
Proof.
  intros Hs Hsel. unfold q_sum, q_mean, q_max, q_min, q_median.
  rewrite !(skel_shapeless _ _ _ _ _ _ _ sel Hs Hsel). repeat split; auto.
  intros isall. unfold q_anyall. rewrite Hs. simpl length. rewrite Hsel. reflexivity.
Qed.

(* Vector / Matrix items and derivative components: the same rule, component by
   component, under the one mask of the object *)
Lemma itemwise_sum s m ax sel comps : s <> [] -> size s <> 0 ->
  axes_sel (length s) ax = Some sel ->
  Forall (fun v => red_ok R_sum (mknL s v m) sel (q_sum ax (mknL s v m))
                   /\ red_ok R_mean (mknL s v m) sel (q_mean ax (mknL s v m))) comps.
Proof.
  intros Hs Hz Hsel. apply Forall_forall. intros v _. split.
  - apply q_sum_ok; auto.
  - apply q_mean_ok; auto.
Qed.

(* sort of a zero-sized object: nothing to sort; NumPy's shape (flattened for axis=None) *)
Lemma q_sort_zero hi a ax sel : (forall l, ax <> AxTup l) -> size (nsh a) = 0 ->
  axes_sel (length (nsh a)) ax = Some sel ->
  exists r, q_sort hi ax a = ROk r /\
            rsh r = match ax with AxNone => [size (nsh a)] | _ => nsh a end.
Proof.
  intros Hax Hz Hsel. unfold q_sort. destruct ax as [|z|lz]; [| |exfalso; eapply Hax; eauto];
    rewrite Hsel, Hz; simpl; eexists; split; reflexivity.
Qed.
