(* C20 - the real-number instance of the list model and the fixed tactic that closes the
   generated obligations (kept apart from C20Lemmas so that the 156 generated files do not load
   Coquelicot).  No proofs here. *)
From Coq Require Import List Reals.
From PM Require Import C20Model.
Import ListNotations.
Local Open Scope R_scope.

Definition peval := gpeval R 0 Rplus Rmult.
Definition padd := gpadd R 0 Rplus.
Definition psub := gpsub R 0 Rminus.
Definition pneg := gpneg R Ropp.
Definition pmul := gpmul R 0 Rplus Rmult.
Definition ppow := gppow R 0 1 Rplus Rmult.
Definition pderiv := gpderiv R 0 Rplus.
Definition ppad := gpad R 0.

(* closes the generated obligations: the list functions are unfolded on the explicit coefficient
   lists, what remains is a polynomial identity over R *)
Ltac c20_unfold :=
  cbv beta iota zeta delta [peval padd psub pneg pmul ppow pderiv ppad gpeval gpeval_acc gpad gmap2 gpadd gpsub
    gpneg gpmul gppow gpderiv gpderiv_aux gnmul gpow List.map List.app List.repeat List.length List.nth
    Nat.max Nat.sub Init.Nat.max Init.Nat.sub] in *.
Ltac c20_ring := c20_unfold; repeat split; ring.

