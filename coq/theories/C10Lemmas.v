(* C10 lemmas: frame, written, read-back, sequences, derivatives for the
   assignment specification of C10Model.v. All unbounded (U): any shape, any
   selection function, any value type. *)
From Coq Require Import List Arith ZArith Bool Lia.
From PM Require Import Base Mask C09Model C10Model.
Import ListNotations.

Lemma omi_eqb_eq a b : omi_eqb a b = true <-> a = b.
Proof.
  destruct a as [x|], b as [y|]; simpl; split; intro H; try discriminate; auto.
  - apply shape_eqb_eq in H. subst; reflexivity.
  - inversion H; subst. apply shape_eqb_eq. reflexivity.
Qed.

(* ---- last_writer ---- *)
Lemma last_writer_none osh src e :
  last_writer osh src e = None <-> (forall o, inb osh o = true -> src o <> Some e).
Proof.
  unfold last_writer. split.
  - intros H o Ho Hs.
    assert (Hin : In o (rev (all_mi osh))) by (apply in_rev; rewrite rev_involutive; apply in_all_mi; exact Ho).
    pose proof (find_none _ _ H o Hin) as Hf. simpl in Hf.
    assert (Ht : omi_eqb (src o) (Some e) = true) by (apply omi_eqb_eq; exact Hs).
    congruence.
  - intro H. destruct (find _ _) as [o|] eqn:E; auto.
    apply find_some in E. destruct E as [Hin Heq].
    apply in_rev in Hin. apply in_all_mi in Hin. apply omi_eqb_eq in Heq.
    exfalso. exact (H o Hin Heq).
Qed.

Lemma find_rev_last {A} (f : A -> bool) (l : list A) x :
  find f (rev l) = Some x ->
  exists l1 l2, l = l1 ++ x :: l2 /\ f x = true /\ (forall y, In y l2 -> f y = false).
Proof.
  induction l as [|a l IH] using rev_ind; simpl; intro H; [discriminate|].
  rewrite rev_app_distr in H. simpl in H.
  destruct (f a) eqn:Ea.
  - inversion H; subst. exists l, []. repeat split; auto. intros y [].
  - destruct (IH H) as (l1 & l2 & -> & Hx & Hl2).
    exists l1, (l2 ++ [a]). repeat split; auto.
    + rewrite <- app_assoc. reflexivity.
    + intros y Hy. apply in_app_or in Hy. destruct Hy as [Hy|[<-|[]]]; auto.
Qed.

(* Some o: o is in bounds, reads e, and no later (row-major) result index reads e *)
Lemma last_writer_some osh src e o :
  last_writer osh src e = Some o ->
  inb osh o = true /\ src o = Some e /\
  exists l1 l2, all_mi osh = l1 ++ o :: l2 /\ (forall o', In o' l2 -> src o' <> Some e).
Proof.
  unfold last_writer. intro H.
  destruct (find_rev_last _ _ _ H) as (l1 & l2 & Hl & Hx & Hl2).
  apply omi_eqb_eq in Hx. repeat split; auto.
  - apply in_all_mi. rewrite Hl. apply in_or_app. right. left. reflexivity.
  - exists l1, l2. split; auto. intros o' Ho' Hs.
    specialize (Hl2 _ Ho'). apply omi_eqb_eq in Hs. congruence.
Qed.

(* duplicate-free selection: the writer of e is the unique index that reads it *)
Definition dup_free (osh : shape) (src : mi -> option mi) : Prop :=
  forall o1 o2 e, inb osh o1 = true -> inb osh o2 = true ->
                  src o1 = Some e -> src o2 = Some e -> o1 = o2.

Lemma last_writer_unique osh src o e :
  dup_free osh src -> inb osh o = true -> src o = Some e -> last_writer osh src e = Some o.
Proof.
  intros Hd Ho Hs. destruct (last_writer osh src e) as [o'|] eqn:E.
  - apply last_writer_some in E. destruct E as (Ho' & Hs' & _).
    f_equal. apply (Hd o' o e); auto.
  - exfalso. exact (proj1 (last_writer_none _ _ _) E o Ho Hs).
Qed.

(* ---- frame and written, for one plain component ---- *)
Section Plain.
Context {V : Type}.
Variables (t r : plain V) (osh : shape) (src : mi -> option mi).

Lemma set_plain_shape : psh (set_plain t osh src r) = psh t.
Proof. reflexivity. Qed.

Lemma set_plain_frame e :
  (forall o, inb osh o = true -> src o <> Some e) ->
  pval (set_plain t osh src r) e = pval t e /\
  mget (pmask (set_plain t osh src r)) e = mget (pmask t) e.
Proof.
  intro H. apply (proj2 (last_writer_none _ _ _)) in H. simpl. rewrite H. split; reflexivity.
Qed.

Lemma set_plain_written e o :
  last_writer osh src e = Some o ->
  pval (set_plain t osh src r) e = pval r (bproj (psh r) o) /\
  mget (pmask (set_plain t osh src r)) e = mget (pmask r) (bproj (psh r) o).
Proof. intro H. simpl. rewrite H. split; reflexivity. Qed.

(* every element is either written from its last writer or unchanged *)
Lemma set_plain_cases e :
  (exists o, last_writer osh src e = Some o /\
             pval (set_plain t osh src r) e = pval r (bproj (psh r) o) /\
             mget (pmask (set_plain t osh src r)) e = mget (pmask r) (bproj (psh r) o)) \/
  ((forall o, inb osh o = true -> src o <> Some e) /\
   pval (set_plain t osh src r) e = pval t e /\
   mget (pmask (set_plain t osh src r)) e = mget (pmask t) e).
Proof.
  destruct (last_writer osh src e) as [o|] eqn:E.
  - left. exists o. split; auto. apply set_plain_written; auto.
  - right. pose proof (proj1 (last_writer_none _ _ _) E) as E'. split; auto.
    apply set_plain_frame; auto.
Qed.

(* read-back through the same duplicate-free selection *)
Lemma readback_plain d o :
  dup_free osh src -> inb osh o = true ->
  match src o with
  | Some e => pval (select d (set_plain t osh src r) osh src) o = pval r (bproj (psh r) o) /\
              mget (pmask (select d (set_plain t osh src r) osh src)) o = mget (pmask r) (bproj (psh r) o)
  | None => mget (pmask (select d (set_plain t osh src r) osh src)) o = true
  end.
Proof.
  intros Hd Ho. destruct (src o) as [e|] eqn:E.
  - pose proof (last_writer_unique _ _ _ _ Hd Ho E) as Hw.
    simpl. rewrite E. rewrite Hw. split; reflexivity.
  - simpl. rewrite E. reflexivity.
Qed.
End Plain.

(* ---- the object level ---- *)
Lemma lookup_map_keys {A} (F : nat -> A) k keys :
  In k keys -> lookup k (map (fun k => (k, F k)) keys) = Some (F k).
Proof.
  induction keys as [|k' keys IH]; simpl; intro H; [contradiction|].
  destruct (Nat.eqb_spec k k') as [->|Hne]; auto.
  destruct H as [H|H]; [congruence|]. apply IH; exact H.
Qed.
Lemma lookup_in {A} k (l : list (nat * A)) p : lookup k l = Some p -> In k (map fst l).
Proof.
  induction l as [|[k' a] l IH]; simpl; intro H; [discriminate|].
  destruct (Nat.eqb_spec k k') as [->|Hne]; auto.
Qed.

Lemma lookup_map_keys_none {A} (F : nat -> A) k keys :
  ~ In k keys -> lookup k (map (fun k => (k, F k)) keys) = None.
Proof.
  induction keys as [|k' keys IH]; simpl; intro H; auto.
  destruct (Nat.eqb_spec k k') as [->|Hne].
  - exfalso. apply H. left. reflexivity.
  - apply IH. intro Hin. apply H. right. exact Hin.
Qed.
Lemma lookup_none_notin {A} k (l : list (nat * A)) : lookup k l = None -> ~ In k (map fst l).
Proof.
  induction l as [|[k' a] l IH]; simpl; intros H Hin; [contradiction|].
  destruct (Nat.eqb_spec k k') as [->|Hne]; [discriminate|].
  destruct Hin as [Hin|Hin]; [congruence|]. exact (IH H Hin).
Qed.

Section Obj.
Context {V : Type}.
Variable zero : nat -> V.

Lemma setitem_rejected_unchanged (t r : obj V) idx oc t' :
  setitem zero t idx r = (oc, t') -> oc <> Done -> t' = t.
Proof.
  unfold setitem. destruct (ref_getitem _ _) as [[osh src]|].
  - destruct (fits _ _); intro H; inversion H; subst; auto. intro Hc. exfalso. apply Hc. reflexivity.
  - intro H; inversion H; subst; auto.
Qed.

Lemma setitem_shape (t r : obj V) idx oc t' :
  setitem zero t idx r = (oc, t') -> psh (omain t') = psh (omain t).
Proof.
  unfold setitem. destruct (ref_getitem _ _) as [[osh src]|].
  - destruct (fits _ _); intro H; inversion H; subst; reflexivity.
  - intro H; inversion H; subst; reflexivity.
Qed.

(* an accepted assignment: main component and every derivative are assigned through
   the SAME selection (the one the index would read) *)
Lemma setitem_done (t r : obj V) idx t' :
  setitem zero t idx r = (Done, t') ->
  exists osh src,
    ref_getitem (psh (omain t)) idx = Some (osh, src) /\
    fits (psh (omain r)) osh = true /\
    omain t' = set_plain (omain t) osh src (omain r) /\
    (forall k p, lookup k (oders t) = Some p ->
       lookup k (oders t') = Some (set_plain p osh src (der_or_zero (zero k) k r (omain r)))) /\
    (forall k p, lookup k (oders t) = None -> lookup k (oders r) = Some p ->
       lookup k (oders t') = Some (set_plain (zero_like (zero k) (omain t')) osh src p)) /\
    (forall k, lookup k (oders t) = None -> lookup k (oders r) = None -> lookup k (oders t') = None).
Proof.
  unfold setitem. destruct (ref_getitem _ _) as [[osh src]|] eqn:E; [|intro H; inversion H].
  destruct (fits _ _) eqn:Ef; intro H; inversion H; subst; clear H.
  exists osh, src. repeat split; auto; simpl.
  - intros k p Hk.
    rewrite (lookup_map_keys (fun k => set_plain (der_or_zero (zero k) k t _) osh src
                                                 (der_or_zero (zero k) k r (omain r)))).
    + unfold der_or_zero at 1. rewrite Hk. reflexivity.
    + apply in_or_app. left. eapply lookup_in; eauto.
  - intros k p Hk Hr.
    rewrite (lookup_map_keys (fun k => set_plain (der_or_zero (zero k) k t _) osh src
                                                 (der_or_zero (zero k) k r (omain r)))).
    + unfold der_or_zero. rewrite Hk, Hr. reflexivity.
    + apply in_or_app. right. apply filter_In. split.
      * eapply lookup_in; eauto.
      * unfold has_key. rewrite Hk. reflexivity.
  - intros k Hk Hr. apply lookup_map_keys_none.
    intro Hin. apply in_app_or in Hin. destruct Hin as [Hin|Hin].
    + exact (lookup_none_notin _ _ Hk Hin).
    + apply filter_In in Hin. destruct Hin as [Hin _]. exact (lookup_none_notin _ _ Hr Hin).
Qed.

(* ---- sequences of assignments ---- *)
Lemma setitems_shape steps : forall (t : obj V) ocs t',
  setitems zero t steps = (ocs, t') -> psh (omain t') = psh (omain t).
Proof.
  induction steps as [|[idx r] steps IH]; intros t ocs t' H; simpl in H.
  - inversion H; subst; reflexivity.
  - destruct (setitem zero t idx r) as [oc t1] eqn:E1.
    destruct (setitems zero t1 steps) as [ocs1 t2] eqn:E2.
    inversion H; subst. rewrite (IH _ _ _ E2). eapply setitem_shape; eauto.
Qed.

(* frame for a whole sequence: an element no assignment selects through an unmasked,
   in-range entry keeps value and mask state *)
Lemma setitems_frame steps : forall (t : obj V) ocs t' e,
  setitems zero t steps = (ocs, t') ->
  (forall idx r osh src, In (idx, r) steps -> ref_getitem (psh (omain t)) idx = Some (osh, src) ->
                         forall o, inb osh o = true -> src o <> Some e) ->
  pval (omain t') e = pval (omain t) e /\ mget (pmask (omain t')) e = mget (pmask (omain t)) e.
Proof.
  induction steps as [|[idx r] steps IH]; intros t ocs t' e H Hsel; simpl in H.
  - inversion H; subst. split; reflexivity.
  - destruct (setitem zero t idx r) as [oc t1] eqn:E1.
    destruct (setitems zero t1 steps) as [ocs1 t2] eqn:E2.
    inversion H; subst; clear H.
    assert (Hs1 : psh (omain t1) = psh (omain t)) by (eapply setitem_shape; eauto).
    destruct (IH t1 ocs1 t' e E2) as [Hv Hm].
    { intros idx' r' osh src Hin Hg. rewrite Hs1 in Hg. eapply Hsel; eauto. right. exact Hin. }
    rewrite Hv, Hm.
    destruct oc.
    + destruct (setitem_done _ _ _ _ E1) as (osh & src & Hg & _ & Hmain & _).
      rewrite Hmain. apply set_plain_frame. intros o Ho. eapply Hsel; eauto. left. reflexivity.
    + rewrite (setitem_rejected_unchanged _ _ _ _ _ E1); [split; reflexivity|discriminate].
    + rewrite (setitem_rejected_unchanged _ _ _ _ _ E1); [split; reflexivity|discriminate].
Qed.

(* the last assignment decides: unrolling at the end of the sequence *)
Lemma setitems_app steps1 : forall (t : obj V) steps2 ocs1 t1 ocs2 t2,
  setitems zero t steps1 = (ocs1, t1) -> setitems zero t1 steps2 = (ocs2, t2) ->
  setitems zero t (steps1 ++ steps2) = (ocs1 ++ ocs2, t2).
Proof.
  induction steps1 as [|[idx r] steps1 IH]; intros t steps2 ocs1 t1 ocs2 t2 H1 H2; simpl in *.
  - inversion H1; subst. exact H2.
  - destruct (setitem zero t idx r) as [oc ta] eqn:Ea.
    destruct (setitems zero ta steps1) as [ocsa tb] eqn:Eb.
    inversion H1; subst. rewrite (IH _ _ _ _ _ _ Eb H2). reflexivity.
Qed.

Lemma setitems_last steps : forall (t : obj V) idx r ocs t1 oc t2,
  setitems zero t steps = (ocs, t1) -> setitem zero t1 idx r = (oc, t2) ->
  setitems zero t (steps ++ [(idx, r)]) = (ocs ++ [oc], t2).
Proof.
  intros t idx r ocs t1 oc t2 H1 H2. eapply setitems_app; eauto. simpl. rewrite H2. reflexivity.
Qed.

(* read-back at the object level *)
Lemma readback_obj d (t r : obj V) idx t' :
  setitem zero t idx r = (Done, t') ->
  exists osh src q,
    ref_getitem (psh (omain t)) idx = Some (osh, src) /\
    getitem d t' idx = Some q /\
    (dup_free osh src -> forall o, inb osh o = true ->
       match src o with
       | Some e => pval (omain q) o = pval (omain r) (bproj (psh (omain r)) o) /\
                   mget (pmask (omain q)) o = mget (pmask (omain r)) (bproj (psh (omain r)) o)
       | None => mget (pmask (omain q)) o = true
       end).
Proof.
  intro H. destruct (setitem_done _ _ _ _ H) as (osh & src & Hg & _ & Hmain & _).
  exists osh, src. unfold getitem.
  rewrite (setitem_shape _ _ _ _ _ H). rewrite Hg.
  eexists. split; [reflexivity|]. split; [reflexivity|].
  intros Hd o Ho. simpl. rewrite Hmain. apply readback_plain; auto.
Qed.
End Obj.
